"""C01 / C02 / C03 / C04: the agent scheduler (agent/scheduler/continuous.py, base.py)"""
from pyvc.spec import REG, T
from .types import OStr, OAny, RO, SlotD, NodeD, ORealT
from .effects import ignore_call, log_call

SlotL = T.List(SlotD)

# recursive sums over a slot list (unfolded at the index, prefix-frame lemma
# proved by induction): node-local storage / memory held, share held on GPU g
REG.define_sum('lfs', 's', [], 's.lfs', T.Int)
REG.define_sum('mem', 's', [], 's.mem', T.Int)
REG.define_sum('gshare', 's', ['g'],
               'ite(len(s.gpus) == 1 and s.gpus[0].index == g, s.gpus[0].occupation, 0.0)', T.Real)

# a node's cells: cores FREE / BUSY / DOWN(None), gpus in [0, 1] or DOWN
REG.define('node_ok(n)',
    'n.lfs >= 0 and n.mem >= 0 and '
    'forall(lambda c: implies(0 <= c < len(n.cores), n.cores[c] is None or n.cores[c] == FREE or n.cores[c] == BUSY)) and '
    'forall(lambda g: implies(0 <= g < len(n.gpus), n.gpus[g] is None or n.gpus[g] == FREE or n.gpus[g] == BUSY))')
REG.define('gocc(n, g)', 'ite(n.gpus[g] is None, 0.0, val(n.gpus[g]))')

# shape of one slot found on node n (C02) and freedom of what it names (C01)
REG.define('slot_on(s, n, cps, lfs, mem)',
    's.node_index == n.index and s.node_name == n.name and len(s.cores) == cps and '
    's.lfs == lfs and s.mem == mem and '
    'forall(lambda j: implies(0 <= j < len(s.cores), 0 <= s.cores[j].index < len(n.cores) and '
    'n.cores[s.cores[j].index] == FREE and s.cores[j].occupation == BUSY)) and '
    'forall(lambda j, j2: implies(0 <= j < j2 < len(s.cores), s.cores[j].index < s.cores[j2].index))')
REG.define('whole_gpus(s, n, gps)',
    'len(s.gpus) == gps and '
    'forall(lambda j: implies(0 <= j < len(s.gpus), 0 <= s.gpus[j].index < len(n.gpus) and '
    'n.gpus[s.gpus[j].index] == FREE and s.gpus[j].occupation == BUSY)) and '
    'forall(lambda j, j2: implies(0 <= j < j2 < len(s.gpus), s.gpus[j].index < s.gpus[j2].index))')
REG.define('shared_gpu(s, n, gps)',
    'len(s.gpus) == 1 and s.gpus[0].occupation == gps and 0 <= s.gpus[0].index < len(n.gpus) and '
    'n.gpus[s.gpus[0].index] == FREE')

_fr_post = [
  ('at-most-requested', 'implies(result is not None, len(val(result)) <= n_slots)'),
  ('all-or-nothing-unless-partial', 'implies(result is not None and not partial, len(val(result)) == n_slots)'),
  ('none-only-if-not-partial', 'implies(result is None, not partial)'),
  ('slots-have-requested-shape-on-free-cores',
   'implies(result is not None, forall(lambda k: implies(0 <= k < len(val(result)), '
   'slot_on(val(result)[k], node, cores_per_slot, lfs_per_slot, mem_per_slot))))'),
  ('no-core-in-two-slots',
   'implies(result is not None, forall(lambda k, k2, j, j2: implies(0 <= k < k2 < len(val(result)) and '
   '0 <= j < len(val(result)[k].cores) and 0 <= j2 < len(val(result)[k2].cores), '
   'val(result)[k].cores[j].index < val(result)[k2].cores[j2].index)))'),
  ('whole-gpus-free-and-requested-number',
   'implies(result is not None and gpus_per_slot >= 1, forall(lambda k: implies(0 <= k < len(val(result)), '
   'whole_gpus(val(result)[k], node, int(gpus_per_slot)))))'),
  ('no-whole-gpu-in-two-slots',
   'implies(result is not None and gpus_per_slot >= 1, forall(lambda k, k2, j, j2: implies(0 <= k < k2 < len(val(result)) and '
   '0 <= j < len(val(result)[k].gpus) and 0 <= j2 < len(val(result)[k2].gpus), '
   'val(result)[k].gpus[j].index < val(result)[k2].gpus[j2].index)))'),
  ('shared-gpu-one-per-slot-not-blocked',
   'implies(result is not None and 0 < gpus_per_slot < 1, forall(lambda k: implies(0 <= k < len(val(result)), '
   'shared_gpu(val(result)[k], node, gpus_per_slot))))'),
  ('gpu-shares-sum-to-at-most-one',
   'implies(result is not None and 0 < gpus_per_slot < 1, forall(lambda g: implies(0 <= g < len(node.gpus), '
   'gocc(node, g) + sumf("gshare", val(result), None, g) <= 1.0)))'),
  ('no-gpu-unless-requested',
   'implies(result is not None and gpus_per_slot == 0, forall(lambda k: implies(0 <= k < len(val(result)), len(val(result)[k].gpus) == 0)))'),
  ('lfs-within-node', 'implies(result is not None, sumf("lfs", val(result), None) <= node.lfs)'),
  ('mem-within-node', 'implies(result is not None, sumf("mem", val(result), None) <= node.mem)'),
]

_slots_inv = [
  # shape / freedom / order of what was found so far
  'forall(lambda k: implies(0 <= k < len(slots), slot_on(slots[k], node, cores_per_slot, lfs_per_slot, mem_per_slot)))',
  'forall(lambda k, j: implies(0 <= k < len(slots) and 0 <= j < len(slots[k].cores), slots[k].cores[j].index < loop_core_idx))',
  'forall(lambda k, k2, j, j2: implies(0 <= k < k2 < len(slots) and 0 <= j < len(slots[k].cores) and 0 <= j2 < len(slots[k2].cores), '
  'slots[k].cores[j].index < slots[k2].cores[j2].index))',
]

REG.spec('agent/scheduler/continuous.py:Continuous._find_resources',
    params   = dict(node=NodeD, n_slots=T.Int, cores_per_slot=T.Int,
                    gpus_per_slot=T.Real, lfs_per_slot=T.Int, mem_per_slot=T.Int,
                    partial=T.Bool),
    returns  = T.Opt(SlotL),
    locals   = dict(slots=SlotL, slot=SlotD, core_idx=T.Int, gpu_idx=T.Int,
                    loop_core_idx=T.Int, loop_gpu_idx=T.Int, lfs_avail=T.Int,
                    mem_avail=T.Int, gpu_share=T.Real, tmp=T.Int,
                    node_idx=T.Int, node_name=T.Str),
    # n_slots >= 1: with n_slots == 0 the search loop is not entered and the
    # debug message after it reads node_name before assignment
    requires = ['n_slots >= 1', 'cores_per_slot >= 1', 'len(node.cores) >= 1',
                'gpus_per_slot >= 0', 'implies(gpus_per_slot >= 1, len(node.gpus) >= 1)',
                'lfs_per_slot >= 0', 'mem_per_slot >= 0', 'node_ok(node)'],
    raises   = {'ValueError': 'gpus_per_slot >= 1 and int(gpus_per_slot) != gpus_per_slot'},
    raises_weak = ['ValueError'],
    ensures  = _fr_post,
    loops    = {
      '1': [
        '0 <= len(slots) <= n_slots', '0 <= loop_core_idx <= len(node.cores)',
        '0 <= loop_gpu_idx <= len(node.gpus)',
        'gpus_per_slot == old(gpus_per_slot)',
        'implies(gpus_per_slot >= 1 and len(slots) > 0, int(gpus_per_slot) == gpus_per_slot)',
        'implies(len(slots) > 0, bound("core_idx") and core_idx + 1 == loop_core_idx)',
        'implies(len(slots) > 0, bound("node_name"))',
        'implies(len(slots) == 0, loop_core_idx == 0 and loop_gpu_idx == 0)',
        'implies(len(slots) > 0 and gpus_per_slot >= 1, bound("gpu_idx") and gpu_idx + 1 == loop_gpu_idx)',
        ] + _slots_inv + [
        # whole gpus
        'implies(gpus_per_slot >= 1, forall(lambda k: implies(0 <= k < len(slots), whole_gpus(slots[k], node, int(gpus_per_slot)))))',
        'implies(gpus_per_slot >= 1, forall(lambda k, j: implies(0 <= k < len(slots) and 0 <= j < len(slots[k].gpus), slots[k].gpus[j].index < loop_gpu_idx)))',
        'implies(gpus_per_slot >= 1, forall(lambda k, k2, j, j2: implies(0 <= k < k2 < len(slots) and 0 <= j < len(slots[k].gpus) and 0 <= j2 < len(slots[k2].gpus), '
        'slots[k].gpus[j].index < slots[k2].gpus[j2].index)))',
        # shared gpu
        'implies(0 < gpus_per_slot < 1, forall(lambda k: implies(0 <= k < len(slots), shared_gpu(slots[k], node, gpus_per_slot))))',
        'gpu_share >= 0',
        'implies(0 < gpus_per_slot < 1, forall(lambda g: implies(0 <= g < loop_gpu_idx, gocc(node, g) + sumf("gshare", slots, None, g) <= 1.0)))',
        'implies(0 < gpus_per_slot < 1, sumf("gshare", slots, None, loop_gpu_idx) == gpu_share)',
        'implies(0 < gpus_per_slot < 1 and gpu_share > 0, loop_gpu_idx < len(node.gpus) and node.gpus[loop_gpu_idx] is not None and gocc(node, loop_gpu_idx) + gpu_share <= 1.0)',
        'implies(0 < gpus_per_slot < 1, forall(lambda g: implies(g > loop_gpu_idx, sumf("gshare", slots, None, g) == 0.0)))',
        # no gpu
        'implies(gpus_per_slot == 0, forall(lambda k: implies(0 <= k < len(slots), len(slots[k].gpus) == 0)))',
        # storage and memory
        'sumf("lfs", slots, None) + lfs_avail == node.lfs', 'lfs_avail >= 0',
        'sumf("mem", slots, None) + mem_avail == node.mem', 'mem_avail >= 0',
      ],
      '1.1': [
        '0 <= len(slot.cores) < cores_per_slot',
        'slot.node_index == node.index and slot.node_name == node.name and slot.lfs == lfs_per_slot and slot.mem == mem_per_slot and len(slot.gpus) == 0',
        'implies(i_core > 0, bound("core_idx") and core_idx == loop_core_idx + i_core - 1)',
        'implies(i_core == 0 and len(slots) > 0, bound("core_idx") and core_idx + 1 == loop_core_idx)',
        'forall(lambda j: implies(0 <= j < len(slot.cores), loop_core_idx <= slot.cores[j].index < loop_core_idx + i_core and '
        'node.cores[slot.cores[j].index] == FREE and slot.cores[j].occupation == BUSY))',
        'forall(lambda j, j2: implies(0 <= j < j2 < len(slot.cores), slot.cores[j].index < slot.cores[j2].index))',
      ],
      '1.2': [
        '0 <= len(slot.gpus) < gpus_per_slot', 'tmp == gpus_per_slot', 'gpus_per_slot >= 1',
        'slot_on(slot, node, cores_per_slot, lfs_per_slot, mem_per_slot)',
        'forall(lambda j: implies(0 <= j < len(slot.cores), loop_core_idx - 1 >= slot.cores[j].index))',
        'forall(lambda k, j, j2: implies(0 <= k < len(slots) and 0 <= j < len(slots[k].cores) and 0 <= j2 < len(slot.cores), slots[k].cores[j].index < slot.cores[j2].index))',
        'implies(i_gpu > 0, bound("gpu_idx") and gpu_idx == loop_gpu_idx + i_gpu - 1)',
        'implies(i_gpu == 0 and len(slots) > 0, bound("gpu_idx") and gpu_idx + 1 == loop_gpu_idx)',
        'forall(lambda j: implies(0 <= j < len(slot.gpus), loop_gpu_idx <= slot.gpus[j].index < loop_gpu_idx + i_gpu and '
        'node.gpus[slot.gpus[j].index] == FREE and slot.gpus[j].occupation == BUSY))',
        'forall(lambda j, j2: implies(0 <= j < j2 < len(slot.gpus), slot.gpus[j].index < slot.gpus[j2].index))',
      ],
      '1.3': [
        'len(slot.gpus) == 0', '0 < gpus_per_slot < 1', 'gpu_share >= 0',
        'slot_on(slot, node, cores_per_slot, lfs_per_slot, mem_per_slot)',
        'forall(lambda j: implies(0 <= j < len(slot.cores), loop_core_idx - 1 >= slot.cores[j].index))',
        'forall(lambda k, j, j2: implies(0 <= k < len(slots) and 0 <= j < len(slots[k].cores) and 0 <= j2 < len(slot.cores), slots[k].cores[j].index < slot.cores[j2].index))',
        'loop_gpu_idx == at_head("1", loop_gpu_idx) + i_gpu_occ',
        'implies(i_gpu_occ == 0, gpu_share == at_head("1", gpu_share))',
        'implies(i_gpu_occ > 0, gpu_share == 0)',
        'forall(lambda g: implies(0 <= g < loop_gpu_idx, gocc(node, g) + sumf("gshare", slots, None, g) <= 1.0))',
        'sumf("gshare", slots, None, loop_gpu_idx) == gpu_share',
        'implies(gpu_share > 0, loop_gpu_idx < len(node.gpus) and node.gpus[loop_gpu_idx] is not None and gocc(node, loop_gpu_idx) + gpu_share <= 1.0)',
        'forall(lambda g: implies(g > loop_gpu_idx, sumf("gshare", slots, None, g) == 0.0))',
      ],
    },
    opts = dict(no_merge=True),
    serves = ['C01', 'C02'])


# ------------------------------------------------------------------------------
# slot format conversion (utils/misc.py), variant: slots carrying RO lists (what
# the scheduler itself produces); C19 also relies on this contract
#
REG.define('same_placement(a, b)',
    'a.node_index == b.node_index and a.node_name == b.node_name and '
    'a.cores == b.cores and a.gpus == b.gpus and a.lfs == b.lfs and a.mem == b.mem')

REG.spec('utils/misc.py:convert_slots_to_new',
    params   = dict(slots=SlotL),
    ignore_params = ['log'],
    returns  = SlotL,
    locals   = dict(new_slots=SlotL),
    ensures  = [('same-length', 'len(result) == len(slots)'),
                ('placement-preserved',
                 'forall(lambda k: implies(0 <= k < len(slots), same_placement(result[k], slots[k])))')],
    loops    = {'1': ['len(new_slots) == i_slot', 'slots == old(slots)',
                      'forall(lambda k: implies(0 <= k < len(new_slots), same_placement(new_slots[k], slots[k])))']},
    serves   = ['C01', 'C03', 'C19'])


# ------------------------------------------------------------------------------
# AgentSchedulingComponent._change_slot_states: mark / unmark a placement
#
NodeL = T.List(NodeD)
REG.define_sum('lfs_on', 's', ['ni'], 'ite(s.node_index == ni, s.lfs, 0)', T.Int)
REG.define_sum('mem_on', 's', ['ni'], 'ite(s.node_index == ni, s.mem, 0)', T.Int)
REG.define_sum('cnt_on', 's', ['ni'], 'ite(s.node_index == ni, 1, 0)', T.Int)      # ranks on node ni

# the node list keeps its skeleton (indices, names, sizes)
REG.define('same_skeleton(a, b)',
    'len(a) == len(b) and forall(lambda n: implies(0 <= n < len(a), '
    'a[n].index == b[n].index and a[n].name == b[n].name and '
    'len(a[n].cores) == len(b[n].cores) and len(a[n].gpus) == len(b[n].gpus)))')
REG.define('distinct_nodes(a)',
    'forall(lambda n, m: implies(0 <= n < m < len(a), a[n].index != a[m].index))')
# every slot names an existing node and cells inside it
REG.define('placement_fits(slots, nodes)',
    'forall(lambda k: implies(0 <= k < len(slots), '
    'exists(lambda n: 0 <= n < len(nodes) and nodes[n].index == slots[k].node_index))) and '
    'forall(lambda k, n, j: implies(0 <= k < len(slots) and 0 <= n < len(nodes) and '
    'nodes[n].index == slots[k].node_index and 0 <= j < len(slots[k].cores), '
    '0 <= slots[k].cores[j].index < len(nodes[n].cores))) and '
    'forall(lambda k, n, j: implies(0 <= k < len(slots) and 0 <= n < len(nodes) and '
    'nodes[n].index == slots[k].node_index and 0 <= j < len(slots[k].gpus), '
    '0 <= slots[k].gpus[j].index < len(nodes[n].gpus)))')

# cells named by the first `upto` slots hold `v`; nothing else changed
REG.define('cores_marked(new, old, slots, upto, v)',
    'forall(lambda k, n, j: implies(0 <= k < upto and 0 <= n < len(new) and '
    'old[n].index == slots[k].node_index and 0 <= j < len(slots[k].cores), '
    'new[n].cores[slots[k].cores[j].index] == v)) and '
    'forall(lambda n, c: implies(0 <= n < len(new) and 0 <= c < len(new[n].cores) and '
    'new[n].cores[c] != old[n].cores[c], '
    'exists(lambda k, j: 0 <= k < upto and 0 <= j < len(slots[k].cores) and '
    'slots[k].node_index == old[n].index and slots[k].cores[j].index == c)))')
REG.define('gpus_marked(new, old, slots, upto, v)',
    'forall(lambda k, n, j: implies(0 <= k < upto and 0 <= n < len(new) and '
    'old[n].index == slots[k].node_index and 0 <= j < len(slots[k].gpus), '
    'new[n].gpus[slots[k].gpus[j].index] == v)) and '
    'forall(lambda n, c: implies(0 <= n < len(new) and 0 <= c < len(new[n].gpus) and '
    'new[n].gpus[c] != old[n].gpus[c], '
    'exists(lambda k, j: 0 <= k < upto and 0 <= j < len(slots[k].gpus) and '
    'slots[k].node_index == old[n].index and slots[k].gpus[j].index == c)))')
REG.define('lfs_mem_moved(new, old, slots, upto, v)',
    'forall(lambda n: implies(0 <= n < len(new), '
    'new[n].lfs == ite(v == BUSY, old[n].lfs - sumf("lfs_on", slots, upto, old[n].index), '
    'old[n].lfs + sumf("lfs_on", slots, upto, old[n].index)) and '
    'new[n].mem == ite(v == BUSY, old[n].mem - sumf("mem_on", slots, upto, old[n].index), '
    'old[n].mem + sumf("mem_on", slots, upto, old[n].index))))')

REG.spec('agent/scheduler/base.py:AgentSchedulingComponent._change_slot_states',
    params   = dict(slots=SlotL, new_state=T.Real),
    self     = dict(nodes=NodeL),
    locals   = dict(node_found=T.Bool),
    calls    = {'rpu.convert_slots_to_new': 'utils/misc.py:convert_slots_to_new'},
    requires = ['distinct_nodes(self.nodes)', 'placement_fits(slots, self.nodes)',
                'new_state == FREE or new_state == BUSY'],
    modifies = ['self.nodes'],
    raises   = {},
    ensures  = [
      ('skeleton-kept', 'same_skeleton(self.nodes, old(self.nodes))'),
      ('named-cores-marked-nothing-else', 'cores_marked(self.nodes, old(self.nodes), slots, len(slots), new_state)'),
      ('named-gpus-marked-nothing-else',  'gpus_marked(self.nodes, old(self.nodes), slots, len(slots), new_state)'),
      ('lfs-mem-debited-or-credited',     'lfs_mem_moved(self.nodes, old(self.nodes), slots, len(slots), new_state)'),
    ],
    loops = {
      '1': ['len(slots) == len(old(slots))',
            'forall(lambda k: implies(0 <= k < len(slots), same_placement(slots[k], old(slots)[k])))',
            'same_skeleton(self.nodes, old(self.nodes))',
            'cores_marked(self.nodes, old(self.nodes), slots, i_slot, new_state)',
            'gpus_marked(self.nodes, old(self.nodes), slots, i_slot, new_state)',
            'lfs_mem_moved(self.nodes, old(self.nodes), slots, i_slot, new_state)'],
      '1.1': ['not node_found',
              'forall(lambda m: implies(0 <= m < i_node, self.nodes[m].index != slot.node_index))',
              'self.nodes == at_head("1", self.nodes)'],
      '1.2': ['node_found', '0 <= i_node < len(self.nodes)', 'node.index == slot.node_index',
              'same_skeleton(self.nodes, old(self.nodes))',
              'forall(lambda n: implies(0 <= n < len(self.nodes) and n != i_node, self.nodes[n] == at_head("1", self.nodes)[n]))',
              'node.lfs == at_head("1", self.nodes)[i_node].lfs and node.mem == at_head("1", self.nodes)[i_node].mem and '
              'node.gpus == at_head("1", self.nodes)[i_node].gpus',
              'forall(lambda j: implies(0 <= j < i_core, node.cores[slot.cores[j].index] == new_state))',
              'forall(lambda c: implies(0 <= c < len(node.cores) and node.cores[c] != at_head("1", self.nodes)[i_node].cores[c], '
              'exists(lambda j: 0 <= j < i_core and slot.cores[j].index == c)))'],
      '1.3': ['node_found', '0 <= i_node < len(self.nodes)', 'node.index == slot.node_index',
              'same_skeleton(self.nodes, old(self.nodes))',
              'forall(lambda n: implies(0 <= n < len(self.nodes) and n != i_node, self.nodes[n] == at_head("1", self.nodes)[n]))',
              'node.lfs == at_head("1", self.nodes)[i_node].lfs and node.mem == at_head("1", self.nodes)[i_node].mem',
              'forall(lambda j: implies(0 <= j < len(slot.cores), node.cores[slot.cores[j].index] == new_state))',
              'forall(lambda c: implies(0 <= c < len(node.cores) and node.cores[c] != at_head("1", self.nodes)[i_node].cores[c], '
              'exists(lambda j: 0 <= j < len(slot.cores) and slot.cores[j].index == c)))',
              'forall(lambda j: implies(0 <= j < i_gpu, node.gpus[slot.gpus[j].index] == new_state))',
              'forall(lambda c: implies(0 <= c < len(node.gpus) and node.gpus[c] != at_head("1", self.nodes)[i_node].gpus[c], '
              'exists(lambda j: 0 <= j < i_gpu and slot.gpus[j].index == c)))'],
    },
    opts = dict(no_merge=True),
    serves = ['C01', 'C03'])


# ------------------------------------------------------------------------------
# Continuous.schedule_task
#
import z3 as _z3
from pyvc import core as _C
from pyvc.core import Val as _Val, TInt as _TInt, fresh as _fresh

Tags   = T.Rec('Tags', colocate=OStr, exclusive=T.Opt(T.Bool))
REG.optional_keys['Tags'] = {'colocate', 'exclusive'}
TDescA = T.Rec('TDescA', ranks=T.Int, ranks_per_node=T.Opt(T.Int),
               cores_per_rank=T.Int, gpus_per_rank=T.Real, lfs_per_rank=T.Int,
               mem_per_rank=T.Int, tags=Tags, partition=T.Opt(T.Int),
               named_env=OStr, priority=T.Opt(T.Int), raptor_id=OStr, mode=OStr,
               slots=T.Opt(SlotL))
REG.optional_keys['TDescA'] = {'partition', 'named_env', 'priority', 'raptor_id', 'mode', 'slots'}
ATask  = T.RecD('ATask', dict(uid=T.Str, description=TDescA, slots=T.Opt(SlotL),
               partition=T.Opt(T.Int), exception=OAny, exception_detail=OAny,
               resources=OAny, tuple_size=T.Opt(T.Tuple(T.Int, T.Int, T.Real)),
               raptor_seen=T.Opt(T.Bool), state=OStr, **{'$set': T.Opt(T.List(T.Str))}))
REG.optional_keys['ATask'] = {'slots', 'partition', 'exception', 'exception_detail', 'resources',
                              'tuple_size', 'raptor_seen', 'state', '$set'}
REG.types.update(ATask=ATask)
RMInfo = T.Rec('RMInfoA', cores_per_node=T.Int, gpus_per_node=T.Int,
               lfs_per_node=T.Int, mem_per_node=T.Int)
RM     = T.Rec('RMA', info=RMInfo)


def _iterate_nodes(ex, node, st):
    """call of the generator Continuous._iterate_nodes by its contract (verified
    separately, see the spec of _iterate_nodes): it yields the rotation of
    self.nodes that starts at self._node_offset; self._node_offset stays in
    range.  The yielded sequence is returned as a list Y.  What is assumed: the
    consumer takes the values lazily but does not touch self.nodes or
    self._node_offset in between (schedule_task does neither)."""
    nodes = ex.get_var(st, 'self.nodes')
    off   = ex.get_var(st, 'self._node_offset')
    ty    = nodes.ty
    n     = ty.len(nodes.term)
    ex.fail(st, _z3.And(n > 0, _z3.Or(off.term < 0, off.term >= n)), 'IndexError')
    Y = ex.fresh_wf(st, ty, 'Y')
    i, p = _z3.Int(_C.fresh_name('i')), _z3.Int(_C.fresh_name('p'))
    pos = _z3.Function(_C.fresh_name('ypos'), _z3.IntSort(), _z3.IntSort())
    inv = _z3.Function(_C.fresh_name('yinv'), _z3.IntSort(), _z3.IntSort())
    st.assume(ty.len(Y.term) == n)
    # Y is a permutation of self.nodes (the rotation by _node_offset is one):
    # Y[i] = nodes[pos(i)], pos a bijection on [0, n)
    st.assume(_z3.ForAll([i], _z3.Implies(_z3.And(0 <= i, i < n),
              _z3.And(0 <= pos(i), pos(i) < n, inv(pos(i)) == i,
                      _z3.Select(ty.arr(Y.term), i) ==
                      _z3.Select(ty.arr(nodes.term), pos(i)))),
              patterns=[_z3.Select(ty.arr(Y.term), i)]))
    st.assume(_z3.ForAll([p], _z3.Implies(_z3.And(0 <= p, p < n),
              _z3.And(0 <= inv(p), inv(p) < n, pos(inv(p)) == p)),
              patterns=[inv(p)]))
    # pos is the rotation proved for the generator itself (spec of
    # Continuous._iterate_nodes, clause rotation-from-offset); that a rotation is
    # a bijection with this inverse is lemma C01.rotation-is-permutation.  Only
    # the bijection is used here, so pos / inv stay abstract.
    new_off = _fresh(_TInt, 'node_offset')
    st.assume(_z3.And(new_off.term >= 0, _z3.Or(new_off.term < n, n == 0)))
    st.env['self._node_offset'] = new_off
    st.env['Y'] = Y
    return Y
_iterate_nodes.mutates = ('self._node_offset',)

# one rank's share on an existing node of the pilot, with the requested shape (C02)
REG.define('rank_placed(s, nodes, cps, gps, lfs, mem)',
    'exists(lambda n: 0 <= n < len(nodes) and slot_on(s, nodes[n], cps, lfs, mem) and '
    'ite(gps >= 1, whole_gpus(s, nodes[n], int(gps)), '
    'ite(gps > 0, shared_gpu(s, nodes[n], gps), len(s.gpus) == 0)))')
REG.define('eff_cps(td)', 'ite(td.cores_per_rank == 0, 1, td.cores_per_rank)')

_st_self = dict(nodes=NodeL, _rm=RM, _colo_history=T.Map(T.Str, T.List(T.Int)),
                _tagged_nodes=T.Set(T.Int), _partition_ids=T.List(T.Int),
                _scattered=T.Bool, _node_offset=T.Int)

REG.spec('agent/scheduler/continuous.py:Continuous.schedule_task',
    params   = dict(task=ATask),
    self     = _st_self,
    returns  = T.Tuple(T.Opt(SlotL), T.Opt(T.Int)),
    locals   = dict(alc_slots=SlotL, new_slots=T.Opt(SlotL), rem_slots=T.Int,
                    is_first=T.Bool, is_last=T.Bool, partial=T.Bool,
                    n_slots=T.Int, node_index=T.Int, node_name=T.Str,
                    colo_tag=OStr, task_partition_id=T.Opt(T.Int),
                    node_partition_id=T.Opt(T.Int), is_exclusive=T.Bool),
    comps    = {},
    calls    = {'self._iterate_nodes': _iterate_nodes,
                'self._find_resources': 'agent/scheduler/continuous.py:Continuous._find_resources'},
    requires = ['distinct_nodes(self.nodes)',
                'forall(lambda n: implies(0 <= n < len(self.nodes), node_ok(self.nodes[n]) and '
                'len(self.nodes[n].cores) >= 1 and len(self.nodes[n].gpus) >= self._rm.info.gpus_per_node))',
                'implies(len(self.nodes) > 0, 0 <= self._node_offset < len(self.nodes))',
                'task.description.ranks >= 1', 'task.description.cores_per_rank >= 0',
                'task.description.gpus_per_rank >= 0', 'task.description.lfs_per_rank >= 0',
                'task.description.mem_per_rank >= 0',
                'implies(task.description.ranks_per_node is not None, val(task.description.ranks_per_node) >= 0)',
                'self._rm.info.cores_per_node >= 1', 'self._rm.info.gpus_per_node >= 0',
                'self._rm.info.lfs_per_node >= 0', 'self._rm.info.mem_per_node >= 0'],
    modifies = ['self._colo_history', 'self._tagged_nodes', 'self._node_offset'],
    # C02: a request whose per-rank needs exceed a node is rejected, not shrunk
    raises   = {'AssertionError':
                  'eff_cps(task.description) > self._rm.info.cores_per_node or '
                  'task.description.gpus_per_rank > self._rm.info.gpus_per_node or '
                  'task.description.lfs_per_rank > self._rm.info.lfs_per_node or '
                  'task.description.mem_per_rank > self._rm.info.mem_per_node',
                'ValueError': 'True'},
    raises_weak = ['ValueError'],
    frame_on_raise = False,
    exc_ensures = {e: [('offset-stays-in-range', 'implies(len(self.nodes) > 0, 0 <= self._node_offset < len(self.nodes))')]
                   for e in ('AssertionError', 'ValueError')},
    ensures  = [
      ('offset-stays-in-range', 'implies(len(self.nodes) > 0, 0 <= self._node_offset < len(self.nodes))'),
      ('failure-is-none-none', 'implies(result[0] is None, result[1] is None)'),
      ('exactly-the-requested-ranks',
       'implies(result[0] is not None, len(val(result[0])) == task.description.ranks)'),
      ('each-rank-on-one-node-with-requested-shape-on-free-cells',
       'implies(result[0] is not None, forall(lambda k: implies(0 <= k < len(val(result[0])), '
       'rank_placed(val(result[0])[k], self.nodes, eff_cps(task.description), task.description.gpus_per_rank, '
       'task.description.lfs_per_rank, task.description.mem_per_rank))))'),
      ('no-core-or-gpu-in-two-ranks',
       'implies(result[0] is not None, forall(lambda k, k2, j, j2: implies(0 <= k < k2 < len(val(result[0])) and '
       'val(result[0])[k].node_index == val(result[0])[k2].node_index, '
       'implies(0 <= j < len(val(result[0])[k].cores) and 0 <= j2 < len(val(result[0])[k2].cores), '
       'val(result[0])[k].cores[j].index < val(result[0])[k2].cores[j2].index) and '
       'implies(task.description.gpus_per_rank >= 1 and 0 <= j < len(val(result[0])[k].gpus) and 0 <= j2 < len(val(result[0])[k2].gpus), '
       'val(result[0])[k].gpus[j].index < val(result[0])[k2].gpus[j2].index))))'),
      ('lfs-per-node-within-what-the-node-has',
       'implies(result[0] is not None, forall(lambda n: implies(0 <= n < len(self.nodes), '
       'sumf("lfs_on", val(result[0]), None, self.nodes[n].index) <= self.nodes[n].lfs)))'),
      ('mem-per-node-within-what-the-node-has',
       'implies(result[0] is not None, forall(lambda n: implies(0 <= n < len(self.nodes), '
       'sumf("mem_on", val(result[0]), None, self.nodes[n].index) <= self.nodes[n].mem)))'),
      ('a-ranks-per-node-limit-is-never-exceeded',
       'implies(result[0] is not None and bool(task.description.ranks_per_node), forall(lambda n: implies(0 <= n < len(self.nodes), '
       'sumf("cnt_on", val(result[0]), None, self.nodes[n].index) <= val(task.description.ranks_per_node))))'),
      ('colocated-only-on-nodes-used-for-the-tag',
       'implies(result[0] is not None and task.description.partition is None and '
       'task.description.tags.colocate is not None and indom(old(self._colo_history), val(task.description.tags.colocate)), '
       'forall(lambda k: implies(0 <= k < len(val(result[0])), '
       'val(result[0])[k].node_index in at(old(self._colo_history), val(task.description.tags.colocate)))))'),
    ],
    loops = {
      '1': ['len(alc_slots) + rem_slots == req_slots', 'rem_slots >= 1', 'req_slots == td.ranks',
            'slots_per_node >= 1',
            'cores_per_slot == eff_cps(td)', 'cores_per_slot >= 1',
            'forall(lambda k: implies(0 <= k < len(alc_slots), rank_placed(alc_slots[k], self.nodes, cores_per_slot, gpus_per_slot, lfs_per_slot, mem_per_slot)))',
            # slots collected so far lie on nodes already visited
            'forall(lambda k, m: implies(0 <= k < len(alc_slots) and i_node <= m < len(Y), alc_slots[k].node_index != Y[m].index))',
            'forall(lambda k, k2, j, j2: implies(0 <= k < k2 < len(alc_slots) and alc_slots[k].node_index == alc_slots[k2].node_index, '
            'implies(0 <= j < len(alc_slots[k].cores) and 0 <= j2 < len(alc_slots[k2].cores), alc_slots[k].cores[j].index < alc_slots[k2].cores[j2].index) and '
            'implies(gpus_per_slot >= 1 and 0 <= j < len(alc_slots[k].gpus) and 0 <= j2 < len(alc_slots[k2].gpus), alc_slots[k].gpus[j].index < alc_slots[k2].gpus[j2].index)))',
            'implies(partition_id is None and colo_tag is not None and indom(old(self._colo_history), val(colo_tag)), '
            'forall(lambda k: implies(0 <= k < len(alc_slots), alc_slots[k].node_index in at(old(self._colo_history), val(colo_tag)))))',
            # storage and memory held per node stay within what the node has left
            'forall(lambda n: implies(0 <= n < len(self.nodes), '
            'sumf("lfs_on", alc_slots, None, self.nodes[n].index) <= self.nodes[n].lfs))',
            'forall(lambda n: implies(0 <= n < len(self.nodes), '
            'sumf("mem_on", alc_slots, None, self.nodes[n].index) <= self.nodes[n].mem))',
            'implies(partition_id is None, self._colo_history == old(self._colo_history))',
            'implies(partition_id is None, colo_tag == td.tags.colocate)',
            # ranks per node: the per-node search size never exceeds the limit, and a node is searched once
            'ranks_per_node == td.ranks_per_node', 'implies(bool(ranks_per_node), slots_per_node <= val(ranks_per_node))',
            'implies(bool(ranks_per_node), forall(lambda n: implies(0 <= n < len(self.nodes), '
            'sumf("cnt_on", alc_slots, None, self.nodes[n].index) <= val(ranks_per_node))))',
            ],
    },
    concat_lemmas = [('sum.lfs_on.extend-one-node', dict(y='node.index')),
                     ('sum.mem_on.extend-one-node', dict(y='node.index')),
                     ('sum.cnt_on.extend-one-node', dict(y='node.index'))],
    opts   = dict(merge='scalars'),
    serves = ['C01', 'C02'])

# the same lemma family for the number of ranks on a node
REG.lemma('sum.cnt_on.none-on-node', induct='n',
    vars  = dict(xs=SlotL, ni=T.Int),
    hyps  = ['n <= len(xs)', 'forall(lambda k: implies(0 <= k < n, xs[k].node_index != ni))'],
    goals = ['sumf("cnt_on", xs, n, ni) == 0'],
    patterns = ['sumf("cnt_on", xs, n, ni)'],
    serves = ['C02'])
REG.lemma('sum.cnt_on.prefix', induct='n',
    vars  = dict(out=SlotL, a=SlotL, ni=T.Int),
    hyps  = ['forall(lambda i: implies(0 <= i < n, out[i] == a[i]))'],
    goals = ['sumf("cnt_on", out, n, ni) == sumf("cnt_on", a, n, ni)'],
    serves = ['C02'])
REG.lemma('sum.cnt_on.extend-one-node', induct='n',
    vars  = dict(out=SlotL, a=SlotL, b=SlotL, la=T.Int, y=T.Int, ni=T.Int),
    hyps  = ['0 <= la', 'forall(lambda i: implies(0 <= i < la, out[i] == a[i]))',
             'forall(lambda i: implies(la <= i < la + n, out[i] == b[i - la]))',
             'forall(lambda k: implies(0 <= k < n, b[k].node_index == y))',
             'forall(lambda k: implies(0 <= k < la, a[k].node_index != y))'],
    goals = ['sumf("cnt_on", out, la + n, y) == n',
             'implies(ni != y, sumf("cnt_on", out, la + n, ni) == sumf("cnt_on", a, la, ni))'],
    uses  = ['sum.cnt_on.prefix', 'sum.cnt_on.none-on-node'],
    patterns = ['sumf("cnt_on", out, la + n, ni)'],
    serves = ['C02'])


# ------------------------------------------------------------------------------
# induction lemmas about the recursive sums (each: base + step obligation)
#
for _f, _g in (('lfs_on', 'lfs'), ('mem_on', 'mem')):
    REG.lemma('sum.%s.all-on-node' % _f, induct='n',
        vars  = dict(xs=SlotL, ni=T.Int),
        hyps  = ['n <= len(xs)', 'forall(lambda k: implies(0 <= k < n, xs[k].node_index == ni))'],
        goals = ['sumf("%s", xs, n, ni) == sumf("%s", xs, n)' % (_f, _g)],
        patterns = ['sumf("%s", xs, n, ni)' % _f],
        serves = ['C01'])
    REG.lemma('sum.%s.none-on-node' % _f, induct='n',
        vars  = dict(xs=SlotL, ni=T.Int),
        hyps  = ['n <= len(xs)', 'forall(lambda k: implies(0 <= k < n, xs[k].node_index != ni))'],
        goals = ['sumf("%s", xs, n, ni) == 0' % _f],
        patterns = ['sumf("%s", xs, n, ni)' % _f],
        serves = ['C01'])
    # a list that agrees with `a` on the first la cells and continues with b
    REG.lemma('sum.%s.concat' % _f, induct='n',
        vars  = dict(out=SlotL, a=SlotL, b=SlotL, la=T.Int, ni=T.Int),
        hyps  = ['0 <= la', 'forall(lambda i: implies(0 <= i < la, out[i] == a[i]))',
                 'forall(lambda i: implies(la <= i < la + n, out[i] == b[i - la]))'],
        goals = ['sumf("%s", out, la + n, ni) == sumf("%s", a, la, ni) + sumf("%s", b, n, ni)' % (_f, _f, _f)],
        uses  = ['sum.%s.prefix' % _f],
        serves = ['C01'])
    # extending a placement by slots that all lie on one node y, none of the
    # slots collected before being on y: y's total is the total of the new
    # slots, every other node's total is unchanged
    REG.lemma('sum.%s.extend-one-node' % _f, induct='n',
        vars  = dict(out=SlotL, a=SlotL, b=SlotL, la=T.Int, y=T.Int, ni=T.Int),
        hyps  = ['0 <= la', 'forall(lambda i: implies(0 <= i < la, out[i] == a[i]))',
                 'forall(lambda i: implies(la <= i < la + n, out[i] == b[i - la]))',
                 'forall(lambda k: implies(0 <= k < n, b[k].node_index == y))',
                 'forall(lambda k: implies(0 <= k < la, a[k].node_index != y))'],
        goals = ['sumf("%s", out, la + n, y) == sumf("%s", b, n)' % (_f, _g),
                 'implies(ni != y, sumf("%s", out, la + n, ni) == sumf("%s", a, la, ni))' % (_f, _f)],
        uses  = ['sum.%s.prefix' % _f, 'sum.%s.none-on-node' % _f],
        patterns = ['sumf("%s", out, la + n, ni)' % _f],
        serves = ['C01'])
    REG.lemma('sum.%s.prefix' % _f, induct='n',
        vars  = dict(out=SlotL, a=SlotL, ni=T.Int),
        hyps  = ['forall(lambda i: implies(0 <= i < n, out[i] == a[i]))'],
        goals = ['sumf("%s", out, n, ni) == sumf("%s", a, n, ni)' % (_f, _f)],
        serves = ['C01'])


# ------------------------------------------------------------------------------
# the node iterator (a generator): yields every node once, starting at the
# persistent offset and wrapping around
#
REG.define('rot(off, i, n)', 'ite(off + i < n, off + i, off + i - n)')

REG.spec('agent/scheduler/continuous.py:Continuous._iterate_nodes',
    params   = dict(),
    self     = dict(nodes=NodeL, _node_offset=T.Int),
    ghost    = dict(yielded=NodeL),
    locals   = dict(iterator_count=T.Int),
    requires = ['len(yielded) == 0',
                'implies(len(self.nodes) > 0, 0 <= self._node_offset < len(self.nodes))'],
    modifies = ['self._node_offset', 'yielded'],
    raises   = {},
    ensures  = [
      ('every-node-once', 'len(yielded) == len(self.nodes)'),
      ('rotation-from-offset',
       'forall(lambda i: implies(0 <= i < len(yielded), '
       'yielded[i] == self.nodes[rot(old(self._node_offset), i, len(self.nodes))]))'),
      ('offset-stays-in-range', 'implies(len(self.nodes) > 0, 0 <= self._node_offset < len(self.nodes))'),
    ],
    loops    = {'1': ['iterator_count == len(yielded)', '0 <= iterator_count <= len(self.nodes)',
                      'implies(len(self.nodes) > 0, 0 <= self._node_offset < len(self.nodes))',
                      'implies(len(self.nodes) > 0, self._node_offset == rot(old(self._node_offset), iterator_count, len(self.nodes)) '
                      'or (iterator_count == len(self.nodes) and self._node_offset == old(self._node_offset)))',
                      'forall(lambda i: implies(0 <= i < len(yielded), '
                      'yielded[i] == self.nodes[rot(old(self._node_offset), i, len(self.nodes))]))']},
    serves   = ['C01', 'C02'])

# a rotation of [0, n) is a bijection: what schedule_task relies on
REG.lemma('C01.rotation-is-permutation',
    vars  = dict(off=T.Int, n=T.Int, i=T.Int, j=T.Int, p=T.Int),
    hyps  = ['n > 0', '0 <= off < n', '0 <= i < n', '0 <= j < n', '0 <= p < n'],
    goals = [('in-range', '0 <= rot(off, i, n) < n'),
             ('injective', 'implies(rot(off, i, n) == rot(off, j, n), i == j)'),
             ('surjective', '0 <= ite(p >= off, p - off, p - off + n) < n and '
                            'rot(off, ite(p >= off, p - off, p - off + n), n) == p')],
    serves = ['C01', 'C02'])


# ------------------------------------------------------------------------------
# the scheduler's occupancy invariant and the grant / release operations
#
REG.define('sched_inv(nodes, gpn)',
    'distinct_nodes(nodes) and forall(lambda n: implies(0 <= n < len(nodes), '
    'node_ok(nodes[n]) and len(nodes[n].cores) >= 1 and len(nodes[n].gpus) >= gpn))')

_sched_self = dict(_st_self)
_sched_self.update(_active_cnt=T.Int)

_sched_task_requires = [
    'task.description.ranks >= 1', 'task.description.cores_per_rank >= 0',
    'task.description.gpus_per_rank >= 0', 'task.description.lfs_per_rank >= 0',
    'task.description.mem_per_rank >= 0',
    'implies(task.description.ranks_per_node is not None, val(task.description.ranks_per_node) >= 0)',
    'self._rm.info.cores_per_node >= 1', 'self._rm.info.gpus_per_node >= 0',
    'self._rm.info.lfs_per_node >= 0', 'self._rm.info.mem_per_node >= 0',
    'implies(len(self.nodes) > 0, 0 <= self._node_offset < len(self.nodes))']

REG.spec('agent/scheduler/base.py:AgentSchedulingComponent._try_allocation',
    params   = dict(task=ATask),
    self     = _sched_self,
    returns  = T.Bool,
    calls    = {'self.schedule_task': 'agent/scheduler/continuous.py:Continuous.schedule_task',
                'self._change_slot_states': 'agent/scheduler/base.py:AgentSchedulingComponent._change_slot_states'},
    effects  = {'self.slot_status': ignore_call},
    requires = ['sched_inv(self.nodes, self._rm.info.gpus_per_node)', 'self._active_cnt >= 0'] +
               _sched_task_requires,
    modifies = ['self.nodes', 'self._active_cnt', 'task', 'self._colo_history',
                'self._tagged_nodes', 'self._node_offset'],
    raises   = {'RuntimeError': 'True', 'AssertionError': 'True', 'ValueError': 'True'},
    raises_weak = ['RuntimeError', 'AssertionError', 'ValueError'],
    # C03 / C04: a task that was not placed holds nothing
    exc_ensures = {e: [('nothing-taken', 'self.nodes == old(self.nodes) and self._active_cnt == old(self._active_cnt)'),
                       ('offset-stays-in-range', 'implies(len(self.nodes) > 0, 0 <= self._node_offset < len(self.nodes))'),
                       ('request-kept', 'task.uid == old(task.uid) and task.description == old(task.description) and '
                                        'task.state == old(task.state) and task.slots == old(task.slots)')]
                   for e in ('RuntimeError', 'AssertionError', 'ValueError')},
    # C04: "can never be scheduled" is concluded only on an idle pilot
    exc_ensures_extra = {'RuntimeError': [('given-up-for-lack-of-resources-only-when-nothing-is-running', 'old(self._active_cnt) == 0')]},
    ensures  = [
      ('invariant-kept', 'sched_inv(self.nodes, self._rm.info.gpus_per_node)'),
      ('offset-stays-in-range', 'implies(len(self.nodes) > 0, 0 <= self._node_offset < len(self.nodes))'),
      ('skeleton-kept', 'same_skeleton(self.nodes, old(self.nodes))'),
      ('refused-takes-nothing', 'implies(not result, self.nodes == old(self.nodes) and self._active_cnt == old(self._active_cnt) and old(self._active_cnt) > 0)'),
      ('request-kept', 'task.uid == old(task.uid) and task.description == old(task.description)'),
      ('refused-leaves-the-task-alone', 'implies(not result, task == old(task))'),
      ('granted-touches-placement-only', 'task.state == old(task.state) and task.tuple_size == old(task.tuple_size)'),
      ('granted-is-counted', 'implies(result, self._active_cnt == old(self._active_cnt) + 1)'),
      ('granted-placement-recorded-on-task',
       'implies(result, task.slots is not None and len(val(task.slots)) == task.description.ranks)'),
      ('granted-cells-were-free',
       'implies(result, forall(lambda k: implies(0 <= k < len(val(task.slots)), '
       'rank_placed(val(task.slots)[k], old(self.nodes), eff_cps(task.description), task.description.gpus_per_rank, '
       'task.description.lfs_per_rank, task.description.mem_per_rank))))'),
      ('granted-cells-now-busy-nothing-else-changed',
       'implies(result, cores_marked(self.nodes, old(self.nodes), val(task.slots), len(val(task.slots)), BUSY) and '
       'gpus_marked(self.nodes, old(self.nodes), val(task.slots), len(val(task.slots)), BUSY) and '
       'lfs_mem_moved(self.nodes, old(self.nodes), val(task.slots), len(val(task.slots)), BUSY))'),
    ],
    serves   = ['C01', 'C03', 'C04'])
_ta = REG.get('agent/scheduler/base.py:AgentSchedulingComponent._try_allocation')
_ta['exc_ensures'] = dict(_ta['exc_ensures'])
for _e, _l in _ta.pop('exc_ensures_extra').items():
    _ta['exc_ensures'][_e] = list(_ta['exc_ensures'][_e]) + _l


REG.spec('agent/scheduler/continuous.py:Continuous.unschedule_task',
    params   = dict(tasks=ATask),
    self     = dict(nodes=NodeL),
    calls    = {'self._change_slot_states': 'agent/scheduler/base.py:AgentSchedulingComponent._change_slot_states'},
    requires = ['distinct_nodes(self.nodes)', 'tasks.slots is not None',
                'placement_fits(val(tasks.slots), self.nodes)'],
    modifies = ['self.nodes'],
    raises   = {},
    ensures  = [
      ('skeleton-kept', 'same_skeleton(self.nodes, old(self.nodes))'),
      ('held-cells-freed-nothing-else-changed',
       'cores_marked(self.nodes, old(self.nodes), val(tasks.slots), len(val(tasks.slots)), FREE) and '
       'gpus_marked(self.nodes, old(self.nodes), val(tasks.slots), len(val(tasks.slots)), FREE) and '
       'lfs_mem_moved(self.nodes, old(self.nodes), val(tasks.slots), len(val(tasks.slots)), FREE)'),
    ],
    serves   = ['C03'])

# C03: releasing a placement restores precisely what granting it took
REG.define('named_cells_free(nodes, slots)',
    'forall(lambda k, n, j: implies(0 <= k < len(slots) and 0 <= n < len(nodes) and '
    'nodes[n].index == slots[k].node_index and 0 <= j < len(slots[k].cores), '
    'nodes[n].cores[slots[k].cores[j].index] == FREE)) and '
    'forall(lambda k, n, j: implies(0 <= k < len(slots) and 0 <= n < len(nodes) and '
    'nodes[n].index == slots[k].node_index and 0 <= j < len(slots[k].gpus), '
    'nodes[n].gpus[slots[k].gpus[j].index] == FREE))')
REG.lemma('C03.roundtrip',
    vars  = dict(n0=NodeL, n1=NodeL, n2=NodeL, slots=SlotL),
    hyps  = ['same_skeleton(n1, n0)', 'same_skeleton(n2, n1)',
             'named_cells_free(n0, slots)',
             # grant (_try_allocation / _change_slot_states BUSY)
             'cores_marked(n1, n0, slots, len(slots), BUSY)', 'gpus_marked(n1, n0, slots, len(slots), BUSY)',
             'lfs_mem_moved(n1, n0, slots, len(slots), BUSY)',
             # release (unschedule_task / _change_slot_states FREE)
             'cores_marked(n2, n1, slots, len(slots), FREE)', 'gpus_marked(n2, n1, slots, len(slots), FREE)',
             'lfs_mem_moved(n2, n1, slots, len(slots), FREE)'],
    goals = [('cores-restored', 'forall(lambda n, c: implies(0 <= n < len(n0) and 0 <= c < len(n0[n].cores), n2[n].cores[c] == n0[n].cores[c]))'),
             ('gpus-restored',  'forall(lambda n, c: implies(0 <= n < len(n0) and 0 <= c < len(n0[n].gpus), n2[n].gpus[c] == n0[n].gpus[c]))'),
             ('lfs-mem-restored', 'forall(lambda n: implies(0 <= n < len(n0), n2[n].lfs == n0[n].lfs and n2[n].mem == n0[n].mem))'),
             ('skeleton', 'same_skeleton(n2, n0)')],
    serves = ['C03'])
# what one task holds is never offered to another: cells marked BUSY are not FREE,
# and the search only hands out FREE cells (C01 / C03)
REG.lemma('C03.held-not-offered',
    vars  = dict(n0=NodeL, n1=NodeL, mine=SlotL, other=SlotL, cps=T.Int, gps=T.Real, lfs=T.Int, mem=T.Int),
    hyps  = ['distinct_nodes(n0)', 'same_skeleton(n1, n0)',
             'placement_fits(mine, n0)',
             'cores_marked(n1, n0, mine, len(mine), BUSY)', 'gpus_marked(n1, n0, mine, len(mine), BUSY)',
             # another task is then placed on the marked list
             'forall(lambda k: implies(0 <= k < len(other), rank_placed(other[k], n1, cps, gps, lfs, mem)))'],
    goals = [('no-shared-core',
              'forall(lambda k, k2, j, j2: implies(0 <= k < len(mine) and 0 <= k2 < len(other) and '
              'mine[k].node_index == other[k2].node_index and 0 <= j < len(mine[k].cores) and 0 <= j2 < len(other[k2].cores), '
              'mine[k].cores[j].index != other[k2].cores[j2].index))'),
             ('no-shared-gpu',
              'forall(lambda k, k2, j, j2: implies(0 <= k < len(mine) and 0 <= k2 < len(other) and '
              'mine[k].node_index == other[k2].node_index and 0 <= j < len(mine[k].gpus) and 0 <= j2 < len(other[k2].gpus), '
              'mine[k].gpus[j].index != other[k2].gpus[j2].index))')],
    serves = ['C01', 'C03'])


# ------------------------------------------------------------------------------
# AgentSchedulingComponent._unschedule_completed: one release per message
#
from .effects import nondet_bool
ATaskL = T.List(ATask)


def _unsched_get(ex, node, st):
    """self._queue_unsched.get(timeout=..): either raises queue.Empty or returns
    a bulk of tasks; every task a peer asks to release holds a placement that
    fits the node list (rely: the executor only releases what was granted).
    The bulk is appended to the ghost list `received`."""
    from pyvc.symexec import State
    e = st.fork(); e.guards = []
    ex.exits.append(('Empty', e, ex.cur_line))
    bulk = ex.fresh_wf(st, ATaskL, 'bulk')
    sub = st.fork(); sub.env = dict(st.env); sub.env['bulk'] = bulk
    st.assume(ex.spec_bool('forall(lambda t: implies(0 <= t < len(bulk), holds_placement(bulk[t], self.nodes)))', sub))
    rec = ex.get_var(st, 'received')
    st.env['received'] = ex.list_concat(rec, bulk, st)
    return bulk
_unsched_get.mutates = ('received',)

REG.define('holds_placement(t, nodes)',
    't.slots is not None and placement_fits(val(t.slots), nodes)')
REG.define('task_cells_free(t, nodes)',
    'forall(lambda k, n, j: implies(0 <= k < len(val(t.slots)) and 0 <= n < len(nodes) and '
    'nodes[n].index == val(t.slots)[k].node_index and 0 <= j < len(val(t.slots)[k].cores), '
    'nodes[n].cores[val(t.slots)[k].cores[j].index] == FREE)) and '
    'forall(lambda k, n, j: implies(0 <= k < len(val(t.slots)) and 0 <= n < len(nodes) and '
    'nodes[n].index == val(t.slots)[k].node_index and 0 <= j < len(val(t.slots)[k].gpus), '
    'nodes[n].gpus[val(t.slots)[k].gpus[j].index] == FREE))')
# a cell changed only if a task of the first `upto` tasks names it
REG.define('only_cells_of(new, old, tasks, upto)',
    'forall(lambda n, c: implies(0 <= n < len(new) and 0 <= c < len(new[n].cores) and new[n].cores[c] != old[n].cores[c], '
    'exists(lambda t, k, j: 0 <= t < upto and 0 <= k < len(val(tasks[t].slots)) and 0 <= j < len(val(tasks[t].slots)[k].cores) and '
    'val(tasks[t].slots)[k].node_index == old[n].index and val(tasks[t].slots)[k].cores[j].index == c))) and '
    'forall(lambda n, c: implies(0 <= n < len(new) and 0 <= c < len(new[n].gpus) and new[n].gpus[c] != old[n].gpus[c], '
    'exists(lambda t, k, j: 0 <= t < upto and 0 <= k < len(val(tasks[t].slots)) and 0 <= j < len(val(tasks[t].slots)[k].gpus) and '
    'val(tasks[t].slots)[k].node_index == old[n].index and val(tasks[t].slots)[k].gpus[j].index == c)))')

REG.spec('agent/scheduler/base.py:AgentSchedulingComponent._unschedule_completed',
    params   = dict(),
    self     = dict(nodes=NodeL, _active_cnt=T.Int),
    ghost    = dict(received=ATaskL),
    returns  = T.Tuple(T.Bool, T.Bool),
    locals   = dict(to_unschedule=ATaskL, to_release=ATaskL, tasks=ATaskL),
    calls    = {'self._term.is_set': nondet_bool,
                'self._queue_unsched.get': _unsched_get,
                'self.unschedule_task': 'agent/scheduler/continuous.py:Continuous.unschedule_task'},
    effects  = {'self._refresh_ts_map': ignore_call},
    requires = ['distinct_nodes(self.nodes)', 'len(received) == 0'],
    modifies = ['self.nodes', 'self._active_cnt', 'received'],
    raises   = {},
    no_raise_is_property = True,
    ensures  = [
      ('one-decrement-per-released-task', 'self._active_cnt == old(self._active_cnt) - len(received)'),
      ('skeleton-kept', 'same_skeleton(self.nodes, old(self.nodes))'),
      ('cells-of-every-released-task-are-free',
       'forall(lambda t: implies(0 <= t < len(received), task_cells_free(received[t], self.nodes)))'),
      ('nothing-else-changed', 'only_cells_of(self.nodes, old(self.nodes), received, len(received))'),
      ('reports-new-resources-iff-something-was-released', 'result[0] == (len(received) > 0)'),
    ],
    loops = {
      '1': ['to_unschedule == received', 'self.nodes == old(self.nodes)', 'self._active_cnt == old(self._active_cnt)',
            'forall(lambda t: implies(0 <= t < len(received), holds_placement(received[t], self.nodes)))'],
      '2': ['len(to_release) == i_task', 'self._active_cnt == old(self._active_cnt) - i_task',
            'forall(lambda t: implies(0 <= t < i_task, to_release[t] == to_unschedule[t]))'],
      '3': ['same_skeleton(self.nodes, old(self.nodes))', 'distinct_nodes(self.nodes)',
            'forall(lambda t: implies(0 <= t < len(to_release), holds_placement(to_release[t], old(self.nodes))))',
            'forall(lambda t: implies(0 <= t < i_task, task_cells_free(to_release[t], self.nodes)))',
            'only_cells_of(self.nodes, old(self.nodes), to_release, i_task)'],
    },
    opts   = dict(merge='scalars'),
    serves = ['C03'])

"""C01 / C02 / C03 / C04: the agent scheduler (agent/scheduler/continuous.py, base.py)"""
from pyvc.spec import REG, T
from .types import OStr, OAny, RO, SlotD, NodeD, ORealT
from .effects import ignore_call, log_call

SlotL = T.List(SlotD)

# recursive sums over a slot list (unfolded at the index, prefix-frame lemma
# proved by induction): node-local storage / memory held, share held on GPU g
REG.define_sum('lfs', 's', [], 's.lfs', T.Int)
REG.define_sum('mem', 's', [], 's.mem', T.Int)
REG.define_sum('gshare', 's', ['g'],
               'ite(len(s.gpus) == 1 and s.gpus[0].index == g, s.gpus[0].occupation, 0.0)', T.Real)

# a node's cells: cores FREE / BUSY / DOWN(None), gpus in [0, 1] or DOWN
REG.define('node_ok(n)',
    'n.lfs >= 0 and n.mem >= 0 and '
    'forall(lambda c: implies(0 <= c < len(n.cores), n.cores[c] is None or n.cores[c] == FREE or n.cores[c] == BUSY)) and '
    'forall(lambda g: implies(0 <= g < len(n.gpus), n.gpus[g] is None or 0.0 <= val(n.gpus[g]) <= 1.0))')
REG.define('gocc(n, g)', 'ite(n.gpus[g] is None, 0.0, val(n.gpus[g]))')

# shape of one slot found on node n (C02) and freedom of what it names (C01)
REG.define('slot_on(s, n, cps, lfs, mem)',
    's.node_index == n.index and s.node_name == n.name and len(s.cores) == cps and '
    's.lfs == lfs and s.mem == mem and '
    'forall(lambda j: implies(0 <= j < len(s.cores), 0 <= s.cores[j].index < len(n.cores) and '
    'n.cores[s.cores[j].index] == FREE and s.cores[j].occupation == BUSY)) and '
    'forall(lambda j, j2: implies(0 <= j < j2 < len(s.cores), s.cores[j].index < s.cores[j2].index))')
REG.define('whole_gpus(s, n, gps)',
    'len(s.gpus) == gps and '
    'forall(lambda j: implies(0 <= j < len(s.gpus), 0 <= s.gpus[j].index < len(n.gpus) and '
    'n.gpus[s.gpus[j].index] == FREE and s.gpus[j].occupation == BUSY)) and '
    'forall(lambda j, j2: implies(0 <= j < j2 < len(s.gpus), s.gpus[j].index < s.gpus[j2].index))')
REG.define('shared_gpu(s, n, gps)',
    'len(s.gpus) == 1 and s.gpus[0].occupation == gps and 0 <= s.gpus[0].index < len(n.gpus) and '
    'n.gpus[s.gpus[0].index] is not None')

_fr_post = [
  ('at-most-requested', 'implies(result is not None, len(val(result)) <= n_slots)'),
  ('all-or-nothing-unless-partial', 'implies(result is not None and not partial, len(val(result)) == n_slots)'),
  ('none-only-if-not-partial', 'implies(result is None, not partial)'),
  ('slots-have-requested-shape-on-free-cores',
   'implies(result is not None, forall(lambda k: implies(0 <= k < len(val(result)), '
   'slot_on(val(result)[k], node, cores_per_slot, lfs_per_slot, mem_per_slot))))'),
  ('no-core-in-two-slots',
   'implies(result is not None, forall(lambda k, k2, j, j2: implies(0 <= k < k2 < len(val(result)) and '
   '0 <= j < len(val(result)[k].cores) and 0 <= j2 < len(val(result)[k2].cores), '
   'val(result)[k].cores[j].index < val(result)[k2].cores[j2].index)))'),
  ('whole-gpus-free-and-requested-number',
   'implies(result is not None and gpus_per_slot >= 1, forall(lambda k: implies(0 <= k < len(val(result)), '
   'whole_gpus(val(result)[k], node, int(gpus_per_slot)))))'),
  ('no-whole-gpu-in-two-slots',
   'implies(result is not None and gpus_per_slot >= 1, forall(lambda k, k2, j, j2: implies(0 <= k < k2 < len(val(result)) and '
   '0 <= j < len(val(result)[k].gpus) and 0 <= j2 < len(val(result)[k2].gpus), '
   'val(result)[k].gpus[j].index < val(result)[k2].gpus[j2].index)))'),
  ('shared-gpu-one-per-slot-not-blocked',
   'implies(result is not None and 0 < gpus_per_slot < 1, forall(lambda k: implies(0 <= k < len(val(result)), '
   'shared_gpu(val(result)[k], node, gpus_per_slot))))'),
  ('gpu-shares-sum-to-at-most-one',
   'implies(result is not None and 0 < gpus_per_slot < 1, forall(lambda g: implies(0 <= g < len(node.gpus), '
   'gocc(node, g) + sumf("gshare", val(result), None, g) <= 1.0)))'),
  ('no-gpu-unless-requested',
   'implies(result is not None and gpus_per_slot == 0, forall(lambda k: implies(0 <= k < len(val(result)), len(val(result)[k].gpus) == 0)))'),
  ('lfs-within-node', 'implies(result is not None, sumf("lfs", val(result), None) <= node.lfs)'),
  ('mem-within-node', 'implies(result is not None, sumf("mem", val(result), None) <= node.mem)'),
]

_slots_inv = [
  # shape / freedom / order of what was found so far
  'forall(lambda k: implies(0 <= k < len(slots), slot_on(slots[k], node, cores_per_slot, lfs_per_slot, mem_per_slot)))',
  'forall(lambda k, j: implies(0 <= k < len(slots) and 0 <= j < len(slots[k].cores), slots[k].cores[j].index < loop_core_idx))',
  'forall(lambda k, k2, j, j2: implies(0 <= k < k2 < len(slots) and 0 <= j < len(slots[k].cores) and 0 <= j2 < len(slots[k2].cores), '
  'slots[k].cores[j].index < slots[k2].cores[j2].index))',
]

REG.spec('agent/scheduler/continuous.py:Continuous._find_resources',
    params   = dict(node=NodeD, n_slots=T.Int, cores_per_slot=T.Int,
                    gpus_per_slot=T.Real, lfs_per_slot=T.Int, mem_per_slot=T.Int,
                    partial=T.Bool),
    returns  = T.Opt(SlotL),
    locals   = dict(slots=SlotL, slot=SlotD, core_idx=T.Int, gpu_idx=T.Int,
                    loop_core_idx=T.Int, loop_gpu_idx=T.Int, lfs_avail=T.Int,
                    mem_avail=T.Int, gpu_share=T.Real, tmp=T.Int,
                    node_idx=T.Int, node_name=T.Str),
    requires = ['n_slots >= 0', 'cores_per_slot >= 1', 'len(node.cores) >= 1',
                'gpus_per_slot >= 0', 'implies(gpus_per_slot >= 1, len(node.gpus) >= 1)',
                'lfs_per_slot >= 0', 'mem_per_slot >= 0', 'node_ok(node)'],
    raises   = {'ValueError': 'gpus_per_slot >= 1 and int(gpus_per_slot) != gpus_per_slot'},
    raises_weak = ['ValueError'],
    ensures  = _fr_post,
    loops    = {
      '1': [
        '0 <= len(slots) <= n_slots', '0 <= loop_core_idx <= len(node.cores)',
        '0 <= loop_gpu_idx <= len(node.gpus)',
        'gpus_per_slot == old(gpus_per_slot)',
        'implies(gpus_per_slot >= 1 and len(slots) > 0, int(gpus_per_slot) == gpus_per_slot)',
        'implies(len(slots) > 0, bound("core_idx") and core_idx + 1 == loop_core_idx)',
        'implies(len(slots) == 0, loop_core_idx == 0 and loop_gpu_idx == 0)',
        'implies(len(slots) > 0 and gpus_per_slot >= 1, bound("gpu_idx") and gpu_idx + 1 == loop_gpu_idx)',
        ] + _slots_inv + [
        # whole gpus
        'implies(gpus_per_slot >= 1, forall(lambda k: implies(0 <= k < len(slots), whole_gpus(slots[k], node, int(gpus_per_slot)))))',
        'implies(gpus_per_slot >= 1, forall(lambda k, j: implies(0 <= k < len(slots) and 0 <= j < len(slots[k].gpus), slots[k].gpus[j].index < loop_gpu_idx)))',
        'implies(gpus_per_slot >= 1, forall(lambda k, k2, j, j2: implies(0 <= k < k2 < len(slots) and 0 <= j < len(slots[k].gpus) and 0 <= j2 < len(slots[k2].gpus), '
        'slots[k].gpus[j].index < slots[k2].gpus[j2].index)))',
        # shared gpu
        'implies(0 < gpus_per_slot < 1, forall(lambda k: implies(0 <= k < len(slots), shared_gpu(slots[k], node, gpus_per_slot))))',
        'gpu_share >= 0',
        'implies(0 < gpus_per_slot < 1, forall(lambda g: implies(0 <= g < loop_gpu_idx, gocc(node, g) + sumf("gshare", slots, None, g) <= 1.0)))',
        'implies(0 < gpus_per_slot < 1, sumf("gshare", slots, None, loop_gpu_idx) == gpu_share)',
        'implies(0 < gpus_per_slot < 1 and gpu_share > 0, loop_gpu_idx < len(node.gpus) and node.gpus[loop_gpu_idx] is not None and gocc(node, loop_gpu_idx) + gpu_share <= 1.0)',
        'implies(0 < gpus_per_slot < 1, forall(lambda g: implies(g > loop_gpu_idx, sumf("gshare", slots, None, g) == 0.0)))',
        # no gpu
        'implies(gpus_per_slot == 0, forall(lambda k: implies(0 <= k < len(slots), len(slots[k].gpus) == 0)))',
        # storage and memory
        'sumf("lfs", slots, None) + lfs_avail == node.lfs', 'lfs_avail >= 0',
        'sumf("mem", slots, None) + mem_avail == node.mem', 'mem_avail >= 0',
      ],
      '1.1': [
        '0 <= len(slot.cores) < cores_per_slot',
        'slot.node_index == node.index and slot.node_name == node.name and slot.lfs == lfs_per_slot and slot.mem == mem_per_slot and len(slot.gpus) == 0',
        'implies(i_core > 0, bound("core_idx") and core_idx == loop_core_idx + i_core - 1)',
        'implies(i_core == 0 and len(slots) > 0, bound("core_idx") and core_idx + 1 == loop_core_idx)',
        'forall(lambda j: implies(0 <= j < len(slot.cores), loop_core_idx <= slot.cores[j].index < loop_core_idx + i_core and '
        'node.cores[slot.cores[j].index] == FREE and slot.cores[j].occupation == BUSY))',
        'forall(lambda j, j2: implies(0 <= j < j2 < len(slot.cores), slot.cores[j].index < slot.cores[j2].index))',
      ],
      '1.2': [
        '0 <= len(slot.gpus) < gpus_per_slot', 'tmp == gpus_per_slot', 'gpus_per_slot >= 1',
        'slot_on(slot, node, cores_per_slot, lfs_per_slot, mem_per_slot)',
        'forall(lambda j: implies(0 <= j < len(slot.cores), loop_core_idx - 1 >= slot.cores[j].index))',
        'forall(lambda k, j, j2: implies(0 <= k < len(slots) and 0 <= j < len(slots[k].cores) and 0 <= j2 < len(slot.cores), slots[k].cores[j].index < slot.cores[j2].index))',
        'implies(i_gpu > 0, bound("gpu_idx") and gpu_idx == loop_gpu_idx + i_gpu - 1)',
        'implies(i_gpu == 0 and len(slots) > 0, bound("gpu_idx") and gpu_idx + 1 == loop_gpu_idx)',
        'forall(lambda j: implies(0 <= j < len(slot.gpus), loop_gpu_idx <= slot.gpus[j].index < loop_gpu_idx + i_gpu and '
        'node.gpus[slot.gpus[j].index] == FREE and slot.gpus[j].occupation == BUSY))',
        'forall(lambda j, j2: implies(0 <= j < j2 < len(slot.gpus), slot.gpus[j].index < slot.gpus[j2].index))',
      ],
      '1.3': [
        'len(slot.gpus) == 0', '0 < gpus_per_slot < 1', 'gpu_share >= 0',
        'slot_on(slot, node, cores_per_slot, lfs_per_slot, mem_per_slot)',
        'forall(lambda j: implies(0 <= j < len(slot.cores), loop_core_idx - 1 >= slot.cores[j].index))',
        'forall(lambda k, j, j2: implies(0 <= k < len(slots) and 0 <= j < len(slots[k].cores) and 0 <= j2 < len(slot.cores), slots[k].cores[j].index < slot.cores[j2].index))',
        'loop_gpu_idx == at_head("1", loop_gpu_idx) + i_gpu_occ',
        'implies(i_gpu_occ == 0, gpu_share == at_head("1", gpu_share))',
        'implies(i_gpu_occ > 0, gpu_share == 0)',
        'forall(lambda g: implies(0 <= g < loop_gpu_idx, gocc(node, g) + sumf("gshare", slots, None, g) <= 1.0))',
        'sumf("gshare", slots, None, loop_gpu_idx) == gpu_share',
        'implies(gpu_share > 0, loop_gpu_idx < len(node.gpus) and node.gpus[loop_gpu_idx] is not None and gocc(node, loop_gpu_idx) + gpu_share <= 1.0)',
        'forall(lambda g: implies(g > loop_gpu_idx, sumf("gshare", slots, None, g) == 0.0))',
      ],
    },
    opts = dict(no_merge=True),
    serves = ['C01', 'C02'])

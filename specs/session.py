"""C16: forwarding of pubsub messages between a side (client or pilot) and the proxy"""
from pyvc.spec import REG, T
from .types import OStr, OAny
from .effects import log_call

Msg = T.Rec('Msg', origin=OStr, fwd=T.Opt(T.Bool), cmd=OAny, arg=OAny)
REG.types['Msg'] = Msg
REG.optional_keys['Msg'] = {'origin', 'fwd', 'cmd', 'arg'}
PutEvt = T.Rec('PutEvt', topic=T.Str, msg=Msg)

# the origin a message has once a hop on side `module` has looked at it
REG.define('eff_origin(m, module)', 'ite(m.origin is None, module, val(m.origin))')
# does the local->proxy hop of side `module` forward m?  does the proxy->local hop?
REG.define('out_fwd(m, module)', 'm.fwd == True and eff_origin(m, module) == module')
REG.define('in_fwd(m, module)',  'eff_origin(m, module) != module')

REG.define('after_out(m, s)', 'm.fwd == False and m.origin == s')

REG.spec('session.py:Session.crosswire_pubsub.pubsub_fwd',
    nested_in = 'Session.crosswire_pubsub',
    params    = dict(topic=T.Str, msg=Msg),
    captured  = dict(from_proxy=T.Bool, tgt=T.Str, src=T.Str),
    globals   = dict(LOG_ENABLED=T.Bool),
    self      = dict(_module=T.Str),
    ghost     = dict(put_log=T.List(PutEvt)),
    effects   = {'publisher.put': log_call('put_log', PutEvt,
                                   dict(topic='topic_', msg='msg_'),
                                   params=['topic_', 'msg_'])},
    modifies  = ['msg', 'put_log'],
    raises    = {},
    no_raise_is_property = True,
    ensures   = [
      ('origin-stamped', 'msg.origin == eff_origin(old(msg), self._module)'),
      ('payload-kept', 'msg.cmd == old(msg).cmd and msg.arg == old(msg).arg'),
      ('history-kept', 'forall(lambda k: implies(0 <= k < len(old(put_log)), put_log[k] == old(put_log)[k]))'),
      # local -> proxy
      ('outbound-forwards-iff-flag-and-own-origin',
       'implies(not from_proxy, len(put_log) == len(old(put_log)) + ite(out_fwd(old(msg), self._module), 1, 0))'),
      ('outbound-clears-flag',
       'implies(not from_proxy and out_fwd(old(msg), self._module), '
       'msg.fwd == False and put_log[len(old(put_log))].topic == tgt and put_log[len(old(put_log))].msg == msg)'),
      ('hop-out-contract',
       'implies(not from_proxy and out_fwd(old(msg), self._module), '
       'after_out(put_log[len(old(put_log))].msg, self._module))'),
      ('outbound-drop-keeps-flag',
       'implies(not from_proxy and not out_fwd(old(msg), self._module), msg.fwd == old(msg).fwd)'),
      # proxy -> local
      ('inbound-forwards-iff-foreign-origin',
       'implies(from_proxy, len(put_log) == len(old(put_log)) + ite(in_fwd(old(msg), self._module), 1, 0))'),
      ('inbound-keeps-message',
       'implies(from_proxy, msg.fwd == old(msg).fwd and '
       'implies(in_fwd(old(msg), self._module), put_log[len(old(put_log))].topic == tgt and put_log[len(old(put_log))].msg == msg))'),
    ],
    serves    = ['C16'])

# composition over the hop contracts, for arbitrary distinct sides s and t
# (one client and any number of pilots): m is published on side s
REG.lemma('C16.once',
    vars  = dict(s=T.Str, t=T.Str, m=Msg, m1=Msg),
    hyps  = ['s != t',
             # m was published on s, i.e. it carries no foreign origin
             'm.origin is None or val(m.origin) == s',
             # m1 is what the outbound hop of s puts on the proxy bus (contract)
             'implies(out_fwd(m, s), after_out(m1, s) and m1.cmd == m.cmd and m1.arg == m.arg)'],
    goals = [('forwarded-iff-flag', 'out_fwd(m, s) == (m.fwd == True)'),
             ('delivered-to-every-other-side', 'implies(out_fwd(m, s), in_fwd(m1, t))'),
             ('not-delivered-back-to-origin', 'implies(out_fwd(m, s), not in_fwd(m1, s))'),
             ('copy-on-other-side-is-not-forwarded-again', 'implies(out_fwd(m, s), not out_fwd(m1, t))'),
             ('original-is-not-forwarded-twice', 'implies(out_fwd(m, s), not out_fwd(m1, s))'),
             ('unflagged-stays-local', 'implies(m.fwd != True, not out_fwd(m, s))')],
    serves = ['C16'])
REG.lemma('C16.foreign-origin',
    vars  = dict(s=T.Str, m=Msg),
    hyps  = ['m.origin is not None', 'val(m.origin) != s'],
    goals = [('never-forwarded-outbound', 'not out_fwd(m, s)')],
    serves = ['C16'])


# ------------------------------------------------------------------------------
# the wiring itself: Session._crosswire_proxy under contract, for every role the
# session can have - each channel gets exactly one forwarder in each direction
WireEvt = T.Rec('WireEvt', src=T.Str, tgt=T.Str, from_proxy=T.Bool)

def _wired(src, tgt, fp):
    return ('exists(lambda k: len(old(wire_log)) <= k < len(wire_log) and wire_log[k].src == "%s" and '
            'wire_log[k].tgt == "%s" and wire_log[k].from_proxy == %s)' % (src, tgt, fp))

REG.spec('session.py:Session._crosswire_proxy',
    params   = dict(),
    self     = dict(_role=T.Str, _PRIMARY=T.Str, _AGENT_0=T.Str, _AGENT_N=T.Str, _DEFAULT=T.Str),
    ghost    = dict(wire_log=T.List(WireEvt)),
    effects  = {'self.crosswire_pubsub': log_call('wire_log', WireEvt, dict(src='src', tgt='tgt', from_proxy='from_proxy'),
                                                  params=['src', 'tgt', 'from_proxy'])},
    modifies = ['wire_log'],
    raises   = {'AssertionError': 'self._role != self._PRIMARY and self._role != self._AGENT_0'},
    ensures  = [
      ('control-messages-leave-this-side-whatever-its-role', _wired('control_pubsub', 'proxy_control_pubsub', False)),
      ('control-messages-reach-this-side-whatever-its-role', _wired('proxy_control_pubsub', 'control_pubsub', True)),
      ('state-messages-leave-this-side-whatever-its-role',   _wired('state_pubsub', 'proxy_state_pubsub', False)),
      ('state-messages-reach-this-side-whatever-its-role',   _wired('proxy_state_pubsub', 'state_pubsub', True)),
      ('one-forwarder-per-channel-and-direction-and-nothing-else', 'len(wire_log) == len(old(wire_log)) + 4'),
      ('history-kept', 'forall(lambda k: implies(0 <= k < len(old(wire_log)), wire_log[k] == old(wire_log)[k]))'),
    ],
    serves   = ['C16'])


# ------------------------------------------------------------------------------
# finite checks: the wiring in Session._crosswire_proxy and the default of the
# forward flag in the component base classes (read from the AST on every run)
#
import ast
from pyvc.frontend import FunctionSource, ModuleEnv
from pyvc.core import SpecError


def _wiring():
    f = FunctionSource('session.py', 'Session._crosswire_proxy')
    rpc = ModuleEnv.get('constants.py')
    calls = []
    for n in ast.walk(f.node):
        if isinstance(n, ast.Call) and isinstance(n.func, ast.Attribute) and \
           n.func.attr == 'crosswire_pubsub':
            kw = {k.arg: k.value for k in n.keywords}
            for k, a in zip(['src', 'tgt', 'from_proxy'], n.args):
                kw[k] = a
            def val(e):
                if isinstance(e, ast.Constant): return e.value
                if isinstance(e, ast.Attribute): return rpc.lookup(e.attr)
                raise SpecError('crosswire argument not a constant')
            calls.append((val(kw['src']), val(kw['tgt']), val(kw['from_proxy']),
                          n.lineno))
    out = []
    if not calls:
        raise SpecError('no crosswire_pubsub calls found in _crosswire_proxy')
    for src, tgt, fp, line in calls:
        is_proxy = str(src).startswith('proxy_')
        out.append(dict(name='L%d:from_proxy-iff-source-is-proxy-channel' % line,
                        ok=(bool(fp) == is_proxy), line=line,
                        note='crosswire_pubsub(%s -> %s, from_proxy=%s)' % (src, tgt, fp),
                        witness=dict(src=src, tgt=tgt, from_proxy=fp)))
        want = str(src)[len('proxy_'):] if is_proxy else 'proxy_' + str(src)
        out.append(dict(name='L%d:target-is-counterpart' % line, ok=(tgt == want),
                        line=line, note='%s -> %s (expected %s)' % (src, tgt, want),
                        witness=dict(src=src, tgt=tgt)))
    for ch in ('control_pubsub', 'state_pubsub'):
        n_out = len([c for c in calls if c[0] == ch])
        n_in  = len([c for c in calls if c[1] == ch])
        out.append(dict(name='%s:wired-once-each-way' % ch,
                        ok=(n_out == 1 and n_in == 1),
                        note='%d outbound, %d inbound forwarder(s)' % (n_out, n_in),
                        witness=dict(channel=ch, outbound=n_out, inbound=n_in)))
    return out


def _fwd_defaults():
    out = []
    for cls, want in (('AgentComponent', True), ('ClientComponent', False)):
        f = FunctionSource('utils/component.py', cls + '.advance')
        a = f.node.args
        names = [x.arg for x in a.args]
        dflt = dict(zip(names[len(names) - len(a.defaults):], a.defaults))
        d = dflt.get('fwd')
        got = d.value if isinstance(d, ast.Constant) else None
        out.append(dict(name='%s.advance:fwd-default-%s' % (cls, want),
                        ok=(got is want), note='default fwd=%r' % got,
                        witness=dict(cls=cls, fwd_default=got)))
        # the flag is passed on unchanged to BaseComponent.advance
        passed = False
        for n in ast.walk(f.node):
            if isinstance(n, ast.Call) and isinstance(n.func, ast.Attribute) \
               and n.func.attr == 'advance':
                for k in n.keywords:
                    if k.arg == 'fwd' and isinstance(k.value, ast.Name) and \
                       k.value.id == 'fwd':
                        passed = True
        reassigned = any(isinstance(n, ast.Name) and n.id == 'fwd' and
                         isinstance(n.ctx, ast.Store) for n in ast.walk(f.node))
        out.append(dict(name='%s.advance:fwd-passed-on-unchanged' % cls,
                        ok=(passed and not reassigned),
                        note='passed=%s reassigned=%s' % (passed, reassigned)))
    return out


REG.finite_check('C16.wiring', _wiring, ['C16'], 'session.py:Session._crosswire_proxy')
REG.finite_check('C16.fwd-defaults', _fwd_defaults, ['C16'],
                 'utils/component.py:{Agent,Client}Component.advance')

"""C05 / C07 / C08: the Popen executor (agent/executing/popen.py) at operation
granularity, with a token discipline on `_tasks`:

  * a task is *finished* (release requested + handed on) by a thread only after
    that thread removed the task's uid from `self._tasks` inside `_check_lock`
    and found it there (ghost set `token`), or on the launch-error path before
    the process was spawned;
  * every finish consumes the token.

Since removal under the lock is an atomic test-and-delete, at most one thread
ever obtains the token for a uid: that is the interference argument; the
obligations below check that every finish on every path of every function holds
a token.
"""
import z3
from pyvc import core as C
from pyvc.spec import REG, T
from pyvc.core import Val, fresh, coerce, TList, TOpt, PyTuple
from .types import OStr, OAny
from .effects import ignore_call, nondet_bool

Proc  = T.Rec('Proc', pid=T.Int)
ETask = T.Rec('ETask', uid=T.Str, proc=T.Opt(Proc), exit_code=T.Opt(T.Int),
              target_state=OStr, exception=OAny, exception_detail=OAny,
              launcher_name=OStr, state=OStr)
REG.optional_keys['ETask'] = set(ETask.fields) - {'uid'}
REG.types.update(ETask=ETask)
ETaskL = T.List(ETask)
ETaskM = T.Map(T.Str, ETask)
FinEvt = T.Rec('FinEvt', uid=T.Str, target_state=OStr, exit_code=T.Opt(T.Int))
AdvEvt = T.Rec('AdvEvt', uid=T.Str, state=OStr, target_state=OStr)
StrSet = T.Set(T.Str)


def _took_token(ex, st, key):
    """del self._tasks[tid] (found present: KeyError otherwise): this thread now
    owns the right to finish tid"""
    tok = ex.get_var(st, 'token')
    st.env['token'] = Val(tok.ty, z3.Store(tok.term, key.term, z3.BoolVal(True)))
_took_token.mutates = ('token',)


def _poll(ex, node, st):
    return fresh(T.Opt(T.Int), 'exit_code')
_poll.mutates = ()


def _publish(ex, node, st):
    """self.publish(channel, payload): on the unschedule channel this is the
    request to release the task's resources.  Obligation: the publishing thread
    holds the token for every task named, or the task was never spawned."""
    chan = ex.ev(node.args[0], st)
    load = ex.ev(node.args[1], st)
    if not (chan.has_py() and chan.py == 'agent_unschedule_pubsub'):
        return C.NONE
    tok = ex.get_var(st, 'token')
    log = ex.get_var(st, 'fin_log')
    lty = log.ty
    if isinstance(load.ty, TList):
        n = load.ty.len(load.term)
        i = z3.Int(C.fresh_name('i'))
        el = z3.Select(load.ty.arr(load.term), i)
        uid = load.ty.elem.get(el, 'uid')
        ex.oblige(st, 'finish-needs-token:bulk@L%s' % ex.cur_line,
                  z3.ForAll([i], z3.Implies(z3.And(0 <= i, i < n), z3.Select(tok.term, uid))),
                  'post', note='every task whose release is requested was removed from _tasks by this thread')
        out = ex.fresh_wf(st, lty, 'fin_log')
        l0 = lty.len(log.term)
        st.assume(lty.len(out.term) == l0 + n)
        st.assume(z3.ForAll([i], z3.Implies(z3.And(0 <= i, i < l0),
                  z3.Select(lty.arr(out.term), i) == z3.Select(lty.arr(log.term), i))))
        e2 = z3.Select(load.ty.arr(load.term), i - l0)
        st.assume(z3.ForAll([i], z3.Implies(z3.And(l0 <= i, i < l0 + n),
                  z3.Select(lty.arr(out.term), i) == FinEvt.mk(
                      load.ty.elem.get(e2, 'uid'), load.ty.elem.get(e2, 'target_state'),
                      load.ty.elem.get(e2, 'exit_code'))),
                  patterns=[z3.Select(lty.arr(out.term), i)]))
        st.env['fin_log'] = out
        # tokens are consumed
        k = z3.Const(C.fresh_name('k'), C.StrSort)
        newtok = ex.fresh_wf(st, tok.ty, 'token')
        st.assume(z3.ForAll([k], z3.Select(newtok.term, k) == z3.And(z3.Select(tok.term, k),
                  z3.Not(z3.Exists([i], z3.And(0 <= i, i < n,
                         load.ty.elem.get(z3.Select(load.ty.arr(load.term), i), 'uid') == k))))))
        st.env['token'] = newtok
        return C.NONE
    uid = load.ty.get(load.term, 'uid')
    unspawned = load.ty.fields['proc'].is_none(load.ty.get(load.term, 'proc'))
    ex.oblige(st, 'finish-needs-token@L%s' % ex.cur_line,
              z3.Or(z3.Select(tok.term, uid), unspawned), 'post',
              note='the release of a task is requested only by the thread that removed it from _tasks, or before it was spawned')
    n = lty.len(log.term)
    ev = FinEvt.mk(uid, load.ty.get(load.term, 'target_state'), load.ty.get(load.term, 'exit_code'))
    st.env['fin_log'] = Val(lty, lty.mk(z3.Store(lty.arr(log.term), n, ev), n + 1))
    st.env['token'] = Val(tok.ty, z3.Store(tok.term, uid, z3.BoolVal(False)))
    return C.NONE
_publish.mutates = ('fin_log', 'token')


def _advance(ex, node, st):
    """self.advance(things, state, ...): events (uid, state, target_state)"""
    things = ex.ev(node.args[0], st)
    state  = ex.ev(node.args[1], st) if len(node.args) > 1 else C.NONE
    log = ex.get_var(st, 'adv_log')
    lty = log.ty
    if isinstance(things, PyTuple):
        things = coerce(things, ETaskL)
    if isinstance(things.ty, TList):
        n = things.ty.len(things.term)
        i = z3.Int(C.fresh_name('i'))
        out = ex.fresh_wf(st, lty, 'adv_log')
        l0 = lty.len(log.term)
        st.assume(lty.len(out.term) == l0 + n)
        st.assume(z3.ForAll([i], z3.Implies(z3.And(0 <= i, i < l0),
                  z3.Select(lty.arr(out.term), i) == z3.Select(lty.arr(log.term), i))))
        e2 = z3.Select(things.ty.arr(things.term), i - l0)
        st.assume(z3.ForAll([i], z3.Implies(z3.And(l0 <= i, i < l0 + n),
                  z3.Select(lty.arr(out.term), i) == AdvEvt.mk(
                      things.ty.elem.get(e2, 'uid'), coerce(state, OStr).term,
                      things.ty.elem.get(e2, 'target_state'))),
                  patterns=[z3.Select(lty.arr(out.term), i)]))
        st.env['adv_log'] = out
        return C.NONE
    ev = AdvEvt.mk(things.ty.get(things.term, 'uid'), coerce(state, OStr).term,
                   things.ty.get(things.term, 'target_state'))
    n = lty.len(log.term)
    st.env['adv_log'] = Val(lty, lty.mk(z3.Store(lty.arr(log.term), n, ev), n + 1))
    return C.NONE
_advance.mutates = ('adv_log',)

_ghost = dict(token=StrSet, fin_log=T.List(FinEvt), adv_log=T.List(AdvEvt))

# C05: what a collected process outcome becomes
REG.define('outcome_ok(e)',
    'ite(e.exit_code == 0, e.target_state == DONE, e.target_state == FAILED and e.exit_code is not None)')

def _poll_rec(ex, node, st):
    """task_proc.poll(): an arbitrary answer (None: still running), remembered per
    task in the ghost map `polled`"""
    code = fresh(T.Opt(T.Int), 'exit_code')
    tid = ex.get_var(st, 'tid')
    m = ex.get_var(st, 'polled')
    st.env['polled'] = Val(m.ty, m.ty.mk(z3.Store(m.ty.val(m.term), tid.term, code.term),
                                         z3.Store(m.ty.dom(m.term), tid.term, z3.BoolVal(True))))
    return code
_poll_rec.mutates = ('polled',)

REG.define('w_has(xs, u)', 'exists(lambda j_: 0 <= j_ < len(xs) and xs[j_].uid == u)')
REG.define('w_distinct(xs)', 'forall(lambda a_, b_: implies(0 <= a_ < b_ < len(xs), xs[a_].uid != xs[b_].uid))')

REG.spec('agent/executing/popen.py:Popen._check_running',
    params   = dict(to_watch=ETaskL),
    self     = dict(_tasks=ETaskM),
    ghost    = dict(_ghost, polled=T.Map(T.Str, T.Opt(T.Int))),
    locals   = dict(tasks_to_advance=ETaskL),
    effects  = {'self.publish': _publish, 'self.advance': _advance,
                'task_proc.poll': _poll_rec, 'task_proc.wait': ignore_call},
    on_delete = {'self._tasks': _took_token},
    requires = ['forall(lambda k: k not in token, Str)', 'w_distinct(to_watch)'],
    cuts     = {'self.publish(rpc.AGENT_UNSCHEDULE_PUBSUB, tasks_to_advance)': [
                  ('the-release-request-names-the-collected-tasks-in-order',
                   'len(fin_log) == len(old(fin_log)) + len(tasks_to_advance) and '
                   'forall(lambda j: implies(0 <= j < len(tasks_to_advance), fin_log[len(old(fin_log)) + j].uid == tasks_to_advance[j].uid))')]},
    modifies = ['self._tasks', 'to_watch', 'token', 'fin_log', 'adv_log', 'polled'],
    raises   = {'ValueError': 'True'},
    raises_weak = ['ValueError'],
    frame_on_raise = False,
    ensures  = [
      ('no-token-left-behind', 'forall(lambda k: k not in token, Str)'),
      ('collected-tasks-were-owned-by-the-watcher',
       'forall(lambda k: implies(len(old(fin_log)) <= k < len(fin_log), indom(old(self._tasks), fin_log[k].uid) and not indom(self._tasks, fin_log[k].uid)))'),
      ('outcome-tells-the-truth',
       'forall(lambda k: implies(len(old(fin_log)) <= k < len(fin_log), outcome_ok(fin_log[k])))'),
      ('every-collected-task-is-handed-on-once',
       'len(adv_log) - len(old(adv_log)) == len(fin_log) - len(old(fin_log)) and '
       'forall(lambda k: implies(len(old(adv_log)) <= k < len(adv_log), adv_log[k].state == rps.AGENT_STAGING_OUTPUT_PENDING and '
       'adv_log[k].uid == fin_log[k - len(old(adv_log)) + len(old(fin_log))].uid))'),
      ('only-removals', 'forall(lambda u: implies(indom(self._tasks, u), indom(old(self._tasks), u) and at(self._tasks, u) == at(old(self._tasks), u)), Str)'),
      # C07 "never left behind": the watch list loses a task only when its process has ended
      ('a-task-whose-process-still-runs-stays-on-the-watch-list',
       'forall(lambda i: implies(0 <= i < len(old(to_watch)) and old(to_watch)[i].proc is not None and at(polled, old(to_watch)[i].uid) is None, '
       'w_has(to_watch, old(to_watch)[i].uid)))'),
      ('a-task-whose-process-ended-and-which-the-watcher-owns-is-collected-in-this-pass',
       'forall(lambda i: implies(0 <= i < len(old(to_watch)) and old(to_watch)[i].proc is not None and at(polled, old(to_watch)[i].uid) is not None '
       'and indom(old(self._tasks), old(to_watch)[i].uid), '
       'exists(lambda k: len(old(fin_log)) <= k < len(fin_log) and fin_log[k].uid == old(to_watch)[i].uid)))'),
    ],
    loops = {
      '1': ['forall(lambda u: implies(indom(self._tasks, u), indom(old(self._tasks), u) and at(self._tasks, u) == at(old(self._tasks), u)), Str)',
            'len(seq_task) == len(old(to_watch))', 'forall(lambda i: implies(0 <= i < len(seq_task), seq_task[i] == old(to_watch)[i]))',
            'w_distinct(to_watch)',
            'forall(lambda j: implies(0 <= j < len(to_watch), exists(lambda i: 0 <= i < len(seq_task) and seq_task[i] == to_watch[j])))',
            'forall(lambda i: implies(i_task <= i < len(seq_task), exists(lambda j: 0 <= j < len(to_watch) and to_watch[j] == seq_task[i])))',
            'forall(lambda i: implies(0 <= i < i_task and seq_task[i].proc is not None and at(polled, seq_task[i].uid) is None, w_has(to_watch, seq_task[i].uid)))',
            'forall(lambda i: implies(0 <= i < i_task and seq_task[i].proc is not None and at(polled, seq_task[i].uid) is not None and '
            'indom(old(self._tasks), seq_task[i].uid), exists(lambda j: 0 <= j < len(tasks_to_advance) and tasks_to_advance[j].uid == seq_task[i].uid)))',
            # deletions from the registry so far concern collected tasks only
            'forall(lambda u: implies(indom(old(self._tasks), u) and not indom(self._tasks, u), '
            'exists(lambda j: 0 <= j < len(tasks_to_advance) and tasks_to_advance[j].uid == u)), Str)',
            'fin_log == old(fin_log)', 'adv_log == old(adv_log)',
            # the watcher holds the token of exactly the tasks it collected
            ('token-held-exactly-for-the-collected-tasks',
             'forall(lambda k: (k in token) == exists(lambda j: 0 <= j < len(tasks_to_advance) and tasks_to_advance[j].uid == k), Str)', 'dsinv'),
            'forall(lambda j: implies(0 <= j < len(tasks_to_advance), indom(old(self._tasks), tasks_to_advance[j].uid) and '
            'not indom(self._tasks, tasks_to_advance[j].uid) and outcome_ok(tasks_to_advance[j])))'],
    },
    opts   = dict(merge='scalars'),
    serves = ['C03', 'C05', 'C07'])


def _get_launcher(ex, node, st):
    return fresh(T.Any, 'launcher')

REG.spec('agent/executing/popen.py:Popen.cancel_task',
    params   = dict(task=ETask),
    self     = dict(_tasks=ETaskM),
    ghost    = _ghost,
    effects  = {'self.publish': _publish, 'self.advance': _advance,
                'proc.poll': _poll, 'proc.wait': ignore_call,
                'self._rm.get_launcher': _get_launcher, 'launcher.cancel_task': ignore_call},
    on_delete = {'self._tasks': _took_token},
    requires = ['forall(lambda k: k not in token, Str)'],
    modifies = ['self._tasks', 'task', 'token', 'fin_log', 'adv_log'],
    raises   = {},
    ensures  = [
      ('no-token-left-behind', 'forall(lambda k: k not in token, Str)'),
      ('uid-kept', 'task.uid == old(task.uid)'),
      ('nothing-finished-means-nothing-removed', 'implies(len(fin_log) == len(old(fin_log)), self._tasks == old(self._tasks))'),
      ('history-kept', 'forall(lambda k: implies(0 <= k < len(old(fin_log)), fin_log[k] == old(fin_log)[k])) and len(fin_log) >= len(old(fin_log))'),
      # C08: only the named task is touched
      ('other-tasks-stay', 'forall(lambda u: implies(u != old(task.uid), indom(self._tasks, u) == indom(old(self._tasks), u) and '
                           'implies(indom(self._tasks, u), at(self._tasks, u) == at(old(self._tasks), u))), Str)'),
      # C07 / C08: canceled at most once, and only while the executor still owns it
      ('finishes-only-an-owned-running-task',
       'len(fin_log) <= len(old(fin_log)) + 1 and implies(len(fin_log) > len(old(fin_log)), '
       'indom(old(self._tasks), old(task.uid)) and not indom(self._tasks, old(task.uid)) and old(task).proc is not None and '
       'fin_log[len(old(fin_log))].uid == old(task.uid) and fin_log[len(old(fin_log))].target_state == CANCELED)'),
      ('a-canceled-task-is-handed-on-once-as-canceled',
       'len(adv_log) - len(old(adv_log)) == len(fin_log) - len(old(fin_log)) and implies(len(adv_log) > len(old(adv_log)), '
       'adv_log[len(old(adv_log))].uid == old(task.uid) and adv_log[len(old(adv_log))].target_state == CANCELED)'),
      ('not-owned-means-untouched',
       'implies(not indom(old(self._tasks), old(task.uid)) or old(task).proc is None, '
       'self._tasks == old(self._tasks) and fin_log == old(fin_log) and adv_log == old(adv_log))'),
    ],
    serves = ['C03', 'C07', 'C08'])


# Popen._handle_task builds the scripts and spawns the process (file system,
# subprocess: outside this family).  Assumed contract (A5): it raises only
# before the process exists; on normal return the task carries its process.
def _handle_task(ex, node, st):
    p = ex.ev_path(node.args[0], st)
    t = ex.read_path(st, *p)
    # C07: from the moment the process exists the watcher and the cancel handler can
    # meet the task; both decide ownership by the entry in _tasks, so the entry has to
    # be there before the task is handed to the launcher (and the watch queue)
    reg = ex.get_var(st, 'self._tasks')
    ex.oblige(st, 'registered-as-owned-before-it-is-launched@L%s' % ex.cur_line,
              z3.Select(reg.ty.dom(reg.term), t.ty.get(t.term, 'uid')), 'post',
              note='the ownership entry in _tasks exists before _handle_task spawns the process and queues it for the watcher')
    e = st.fork(); e.guards = []
    # failure before the spawn: task unchanged, no process
    ex.exits.append(('Exception', e, ex.cur_line))
    proc = fresh(Proc, 'proc')
    ex.write_path(st, p[0], p[1] + (('f', 'proc'),), proc)
    return C.NONE
_handle_task.mutates = ('tasks',)

REG.spec('agent/executing/popen.py:Popen.work',
    params   = dict(tasks=ETaskL),
    self     = dict(_tasks=ETaskM),
    ghost    = _ghost,
    calls    = {'self._handle_task': _handle_task},
    effects  = {'self.publish': _publish, 'self.advance': _advance, 'self.advance_tasks': _advance},
    requires = ['forall(lambda k: k not in token, Str)',
                # tasks arrive unspawned, with fresh uids
                'forall(lambda i: implies(0 <= i < len(tasks), tasks[i].proc is None and not indom(self._tasks, tasks[i].uid)))',
                'forall(lambda i, j: implies(0 <= i < j < len(tasks), tasks[i].uid != tasks[j].uid))'],
    modifies = ['self._tasks', 'tasks', 'token', 'fin_log', 'adv_log'],
    raises   = {},
    no_raise_is_property = True,
    ensures  = [
      ('no-token-left-behind', 'forall(lambda k: k not in token, Str)'),
      # C07: execution start announced once per accepted task, first
      ('start-announced-once-per-task',
       'len(adv_log) >= len(old(adv_log)) + len(tasks) and forall(lambda i: implies(0 <= i < len(tasks), '
       'adv_log[len(old(adv_log)) + i].uid == old(tasks)[i].uid and adv_log[len(old(adv_log)) + i].state == rps.AGENT_EXECUTING))'),
      # C05 / C07: a task that could not be launched is released once and handed on as FAILED
      ('launch-errors-release-and-fail-that-task-only',
       'len(fin_log) - len(old(fin_log)) == len(adv_log) - len(old(adv_log)) - len(tasks) and '
       'forall(lambda k: implies(len(old(adv_log)) + len(tasks) <= k < len(adv_log), adv_log[k].state == FAILED and '
       'adv_log[k].uid == fin_log[k - len(old(adv_log)) - len(tasks) + len(old(fin_log))].uid))'),
    ],
    loops = {
      '1': ['len(tasks) == len(old(tasks))', 'forall(lambda k: k not in token, Str)',
            'forall(lambda i: implies(0 <= i < len(tasks), tasks[i].uid == old(tasks)[i].uid))',
            'forall(lambda i: implies(i_task <= i < len(tasks), tasks[i].proc is None))',
            'len(adv_log) >= len(old(adv_log)) + len(tasks)',
            'forall(lambda i: implies(0 <= i < len(tasks), adv_log[len(old(adv_log)) + i].uid == old(tasks)[i].uid and adv_log[len(old(adv_log)) + i].state == rps.AGENT_EXECUTING))',
            'len(fin_log) - len(old(fin_log)) == len(adv_log) - len(old(adv_log)) - len(tasks)',
            'forall(lambda k: implies(len(old(adv_log)) + len(tasks) <= k < len(adv_log), adv_log[k].state == FAILED and '
            'adv_log[k].uid == fin_log[k - len(old(adv_log)) - len(tasks) + len(old(fin_log))].uid))'],
    },
    opts   = dict(merge='scalars'),
    serves = ['C03', 'C05', 'C07'])


REG.spec('agent/executing/popen.py:Popen.get_task',
    params   = dict(tid=T.Str),
    self     = dict(_tasks=ETaskM),
    returns  = T.Opt(ETask),
    raises   = {},
    ensures  = ['(result is not None) == indom(self._tasks, tid)',
                'implies(result is not None, val(result) == at(self._tasks, tid))'],
    serves   = ['C08'])

ExArg = T.Rec('ExArg', uids=T.Opt(T.List(T.Str)), uid=OStr)
REG.optional_keys['ExArg'] = {'uids', 'uid'}
ExMsg = T.Rec('ExMsg', cmd=OStr, arg=T.Opt(ExArg))
REG.optional_keys['ExMsg'] = {'cmd', 'arg'}

def _cc_seen(ex, node, st):
    """ghost code after `task = self.get_task(tid)`: one more named uid looked at,
    and whether the executor owns it"""
    st.env['n_seen'] = Val(T.Int, ex.get_var(st, 'n_seen').term + 1)
    t = ex.get_var(st, 'task')
    st.env['n_found'] = Val(T.Int, ex.get_var(st, 'n_found').term + z3.If(C.truthy(t), 1, 0))
_cc_seen.mutates = ('n_seen', 'n_found')

def _cc_call(ex, node, st):
    st.env['n_calls'] = Val(T.Int, ex.get_var(st, 'n_calls').term + 1)
_cc_call.mutates = ('n_calls',)

_cc_ghost = dict(_ghost)
_cc_ghost.update(n_seen=T.Int, n_found=T.Int, n_calls=T.Int)

REG.spec('agent/executing/base.py:AgentExecutingComponent.control_cb#cancel',
    fragment = "if cmd == 'cancel_tasks':",
    fragment_marker = 'self.cancel_task(task)',
    params   = dict(cmd=OStr, arg=T.Opt(ExArg)),
    self     = dict(_tasks=ETaskM),
    ghost    = _cc_ghost,
    locals   = dict(task=T.Opt(ETask)),
    stmt_ghost = {'task = self.get_task(tid)': _cc_seen, 'self.cancel_task(task)': _cc_call},
    calls    = {'self.get_task': 'agent/executing/popen.py:Popen.get_task',
                'self.cancel_task': 'agent/executing/popen.py:Popen.cancel_task',
                'time.time': None},
    effects  = {'self._to_tasks.append': ignore_call},
    requires = ['forall(lambda k: k not in token, Str)',
                'forall(lambda u: implies(indom(self._tasks, u), at(self._tasks, u).uid == u), Str)',
                'cmd == "cancel_tasks"', 'arg is not None and val(arg).uids is not None'],
    modifies = ['self._tasks', 'token', 'fin_log', 'adv_log', 'n_seen', 'n_found', 'n_calls'],
    raises   = {},
    ensures  = [
      # C08: every named task this executor owns is handed to cancel_task, wherever it stands in the request
      ('every-named-uid-is-looked-at-and-every-owned-one-is-canceled',
       'n_seen - old(n_seen) == len(val(val(arg).uids)) and n_calls - old(n_calls) == n_found - old(n_found)'),
      # C08: tasks that are not named keep their place and are not finished
      ('bystanders-untouched',
       'forall(lambda u: implies(not in_list(val(val(arg).uids), u), indom(self._tasks, u) == indom(old(self._tasks), u) and '
       'implies(indom(self._tasks, u), at(self._tasks, u) == at(old(self._tasks), u))), Str)'),
      ('only-named-tasks-are-canceled',
       'forall(lambda k: implies(len(old(fin_log)) <= k < len(fin_log), in_list(val(val(arg).uids), fin_log[k].uid) and fin_log[k].target_state == CANCELED))'),
      ('each-handed-on-once', 'len(adv_log) - len(old(adv_log)) == len(fin_log) - len(old(fin_log))'),
      ('no-token-left-behind', 'forall(lambda k: k not in token, Str)'),
    ],
    loops = {
      '1': ['forall(lambda k: k not in token, Str)', 'n_seen - old(n_seen) == i_tid', 'n_calls - old(n_calls) == n_found - old(n_found)',
            'forall(lambda u: implies(indom(self._tasks, u), at(self._tasks, u).uid == u), Str)',
            'forall(lambda u: implies(not exists(lambda i: 0 <= i < i_tid and val(val(arg).uids)[i] == u), indom(self._tasks, u) == indom(old(self._tasks), u) and '
            'implies(indom(self._tasks, u), at(self._tasks, u) == at(old(self._tasks), u))), Str)',
            'forall(lambda u: implies(indom(self._tasks, u), indom(old(self._tasks), u)), Str)',
            'len(fin_log) >= len(old(fin_log))',
            'forall(lambda k: implies(len(old(fin_log)) <= k < len(fin_log), in_list(val(val(arg).uids), fin_log[k].uid) and fin_log[k].target_state == CANCELED))',
            'forall(lambda k: implies(0 <= k < len(old(fin_log)), fin_log[k] == old(fin_log)[k]))',
            'len(adv_log) - len(old(adv_log)) == len(fin_log) - len(old(fin_log))'],
    },
    opts   = dict(merge='scalars'),
    serves = ['C08'])


# ------------------------------------------------------------------------------
# BaseComponent.is_canceled: a named task that a component meets later is
# canceled there instead of being processed (C08)
#
CTask = T.Rec('CTask', uid=T.Str, state=OStr, slots=OAny, target_state=OStr, proc=T.Opt(Proc), exit_code=T.Opt(T.Int))
REG.optional_keys['CTask'] = {'state', 'slots', 'target_state', 'proc', 'exit_code'}


def _adv_canceled(ex, node, st):
    t = ex.ev(node.args[0], st)
    state = ex.ev(node.args[1], st)
    log = ex.get_var(st, 'adv_log')
    lty = log.ty
    ev = AdvEvt.mk(t.ty.get(t.term, 'uid'), coerce(state, OStr).term, t.ty.get(t.term, 'target_state'))
    n = lty.len(log.term)
    st.env['adv_log'] = Val(lty, lty.mk(z3.Store(lty.arr(log.term), n, ev), n + 1))
    return C.NONE
_adv_canceled.mutates = ('adv_log',)

_isc = dict(
    params   = dict(task=CTask),
    self     = dict(_cancel_list=T.List(T.Str)),
    returns  = T.Bool,
    effects  = {'self.advance': _adv_canceled},
    modifies = ['self._cancel_list', 'adv_log'],
    raises   = {},
)
_isc_post = [
      ('canceled-iff-named', 'result == in_list(old(self._cancel_list), task.uid)'),
      ('unnamed-tasks-untouched', 'implies(not result, self._cancel_list == old(self._cancel_list) and adv_log == old(adv_log))'),
      ('named-task-reported-canceled-once',
       'implies(result and task.state is not None, len(adv_log) == len(old(adv_log)) + 1 and '
       'adv_log[len(old(adv_log))].uid == task.uid and adv_log[len(old(adv_log))].state == CANCELED)'),
      ('request-consumed', 'implies(result, len(self._cancel_list) == len(old(self._cancel_list)) - 1)'),
      ('other-requests-kept',
       'forall(lambda i: implies(0 <= i < len(old(self._cancel_list)) and old(self._cancel_list)[i] != task.uid, '
       'in_list(self._cancel_list, old(self._cancel_list)[i])))'),
]
REG.spec('utils/component.py:BaseComponent.is_canceled',
    ghost    = dict(adv_log=T.List(AdvEvt)),
    ensures  = _isc_post,
    serves   = ['C08'], **_isc)

# the executor's own is_canceled (added by fix commit, see known_findings.json): a
# task found canceled before it was launched - dropped by the component's intake
# filter - holds a placement; the executor asks for its release, exactly once, and
# leaves a task that already has a process to cancel_task / the watcher (C03 / C08)

REG.spec('agent/executing/base.py:AgentExecutingComponent.is_canceled',
    params   = dict(task=CTask),
    self     = dict(_cancel_list=T.List(T.Str)),
    returns  = T.Bool,
    ghost    = _ghost,
    calls    = {'super.is_canceled': 'utils/component.py:BaseComponent.is_canceled'},
    effects  = {'self.publish': _publish},
    requires = ['forall(lambda k: k not in token, Str)'],
    modifies = ['self._cancel_list', 'adv_log', 'fin_log', 'token'],
    raises   = {},
    ensures  = [
      ('canceled-iff-named', 'result == in_list(old(self._cancel_list), task.uid)'),
      ('a-placed-task-given-up-before-its-launch-is-released-once',
       'implies(result and task.proc is None, len(fin_log) == len(old(fin_log)) + 1 and fin_log[len(old(fin_log))].uid == task.uid)'),
      ('a-task-that-has-a-process-or-is-not-named-is-not-released-here',
       'implies(not result or task.proc is not None, fin_log == old(fin_log))'),
      ('earlier-release-requests-kept', 'forall(lambda k: implies(0 <= k < len(old(fin_log)), fin_log[k] == old(fin_log)[k]))'),
      ('no-token-left-behind', 'forall(lambda k: k not in token, Str)'),
    ],
    serves   = ['C03', 'C08'])


# ------------------------------------------------------------------------------
# C05: agent / client side advance wrappers: FAILED and CANCELED are handed back
# to the client with the full task, published and never pushed
#
Thing = T.RecD('Thing', {'uid': T.Str, 'state': OStr, 'target_state': OStr,
                         'control': OStr, '$all': T.Opt(T.Bool)})
REG.optional_keys['Thing'] = {'state', 'target_state', 'control', '$all'}
SupEvt = T.Rec('SupEvt', n=T.Int, state=OStr, publish=T.Bool, push=T.Bool, fwd=T.Bool)


def _base_advance_params():
    """parameter names of the real BaseComponent.advance, in order (read from the
    source on every run): positional arguments of super().advance(..) bind by it"""
    from pyvc.frontend import FunctionSource
    a = FunctionSource('utils/component.py', 'BaseComponent.advance').node.args
    return [x.arg for x in a.args if x.arg != 'self']


def _super_advance(ex, node, st):
    kw = {k.arg: ex.ev(k.value, st) for k in node.keywords}
    for name, a in zip(_base_advance_params(), node.args):
        kw[name] = ex.ev(a, st)
    for name in ('things', 'state', 'publish', 'push', 'fwd'):
        if name not in kw:
            raise C.SpecError('super().advance is called without %s: the base class default would apply '
                              '(not modelled)' % name)
    log = ex.get_var(st, 'sup_log')
    lty = log.ty
    things = kw['things']
    ev = SupEvt.mk(things.ty.len(things.term), coerce(kw['state'], OStr).term,
                   coerce(kw['publish'], T.Bool).term, coerce(kw['push'], T.Bool).term,
                   coerce(kw['fwd'], T.Bool).term)
    n = lty.len(log.term)
    st.env['sup_log'] = Val(lty, lty.mk(z3.Store(lty.arr(log.term), n, ev), n + 1))
    return C.NONE
_super_advance.mutates = ('sup_log',)

for _cls, _fwd, _extra in (('AgentComponent', True,
        ' and things[i].control == "tmgr_pending" and things[i]["$all"] == True'),
                           ('ClientComponent', False, '')):
    REG.spec('utils/component.py:%s.advance' % _cls,
        params   = dict(things=T.List(Thing), state=OStr, publish=T.Bool, push=T.Bool,
                        qname=OStr, ts=T.Opt(T.Real), fwd=T.Bool, prof=T.Bool),
        defaults = dict(state=None, publish=True, push=False, qname=None, ts=None, fwd=_fwd, prof=True),
        ghost    = dict(sup_log=T.List(SupEvt)),
        effects  = {'super.advance': _super_advance},
        modifies = ['things', 'sup_log'],
        raises   = {},
        ensures  = [
          ('failed-and-canceled-become-the-target-state',
           'implies(state in [FAILED, CANCELED], forall(lambda i: implies(0 <= i < len(things), '
           'things[i].target_state == state and things[i].uid == old(things)[i].uid%s)))' % _extra),
          ('failed-and-canceled-are-published-never-pushed',
           'len(sup_log) == len(old(sup_log)) + 1 and implies(state in [FAILED, CANCELED], '
           'sup_log[len(old(sup_log))].publish and not sup_log[len(old(sup_log))].push)'),
          ('handed-to-the-base-class-unchanged-otherwise',
           'sup_log[len(old(sup_log))].state == state and sup_log[len(old(sup_log))].n == len(things) and '
           'sup_log[len(old(sup_log))].fwd == fwd and '
           'implies(state not in [FAILED, CANCELED], things == old(things) and '
           'sup_log[len(old(sup_log))].publish == publish and sup_log[len(old(sup_log))].push == push)'),
          ('same-things', 'len(things) == len(old(things))'),
        ],
        loops = {'1': ['len(things) == len(old(things))',
                       'forall(lambda i: implies(i_thing <= i < len(things), things[i] == old(things)[i]))',
                       'forall(lambda i: implies(0 <= i < i_thing, things[i].target_state == state and things[i].uid == old(things)[i].uid%s))' % _extra,
                       'sup_log == old(sup_log)']},
        serves = ['C05', 'C16'])


# ------------------------------------------------------------------------------
# C05: BaseComponent.work_cb, the dispatch of one batch of things to the worker
# routines: a worker that raises fails the things of its bulk (exception recorded,
# FAILED published, not pushed) and nothing escapes - the component lives on
WThing = T.Rec('WThing', uid=T.Str, state=OStr, exception=OAny, exception_detail=OAny)
REG.optional_keys['WThing'] = {'state', 'exception', 'exception_detail'}
WEvt = T.Rec('WorkEvt', state=OStr, n=T.Int, ok=T.Bool)


def _worker_call(ex, node, st):
    """self._workers[state](things): any worker routine - returns or raises
    anything; the call is logged (ghost `work_log`)"""
    things = ex.ev(node.args[0], st)
    state = ex.get_var(st, 'state')
    log = ex.get_var(st, 'work_log')
    lty = log.ty
    n = lty.len(log.term)
    raised = st.fork(); raised.guards = []
    ev = lambda ok: WEvt.mk(coerce(state, OStr).term, things.ty.len(things.term), z3.BoolVal(ok))
    raised.env = dict(st.env)
    raised.env['work_log'] = Val(lty, lty.mk(z3.Store(lty.arr(log.term), n, ev(False)), n + 1))
    raised.env['n_raised'] = Val(T.Int, ex.get_var(st, 'n_raised').term + 1)
    ex.exits.append(('Exception', raised, ex.cur_line))
    st.env['work_log'] = Val(lty, lty.mk(z3.Store(lty.arr(log.term), n, ev(True)), n + 1))
    return C.NONE
_worker_call.mutates = ('work_log', 'n_raised')

def _w_advance(ex, node, st):
    """self.advance(things, rps.FAILED, publish=True, push=False) in the handler"""
    things = ex.ev(node.args[0], st)
    state = ex.ev(node.args[1], st)
    kw = {k.arg: ex.ev(k.value, st) for k in node.keywords}
    ok = z3.And(state.term == C.str_lit('FAILED') if not state.has_py() else z3.BoolVal(state.py == 'FAILED'),
                C.truthy(kw.get('publish', C.lift(True))), z3.Not(C.truthy(kw.get('push', C.lift(False)))))
    ex.oblige(st, 'failed-things-are-published-not-pushed@L%s' % ex.cur_line, ok, 'post',
              note='things of a failed bulk are advanced to FAILED, published and not pushed on')
    log = ex.get_var(st, 'failed_bulks')
    lty = log.ty
    n = lty.len(log.term)
    st.env['failed_bulks'] = Val(lty, lty.mk(z3.Store(lty.arr(log.term), n, things.term), n + 1))
    # which worker call this bulk belongs to: the last one logged
    wl = ex.get_var(st, 'work_log')
    fi = ex.get_var(st, 'fidx')
    st.env['fidx'] = Val(fi.ty, fi.ty.mk(z3.Store(fi.ty.val(fi.term), wl.ty.len(wl.term) - 1, n), fi.ty.dom(fi.term)))
    return C.NONE
_w_advance.mutates = ('failed_bulks', 'fidx')

def _trace(ex, node, st):
    return ex.fresh_wf(st, T.List(T.Str), 'trace')
_trace.mutates = ()

def _repr2(ex, node, st):
    return fresh(T.Str, 'repr')
_repr2.mutates = ()

WThingL = T.List(WThing)
REG.spec('utils/component.py:BaseComponent.work_cb#dispatch',
    fragment = 'for state,things in buckets.items():',
    params   = dict(buckets=T.Map(OStr, WThingL), states=T.List(OStr)),
    self     = dict(_workers=T.Map(OStr, T.Any), _cancel_list=T.List(T.Str)),
    ghost    = dict(work_log=T.List(WEvt), failed_bulks=T.List(WThingL), n_raised=T.Int, fidx=T.Map(T.Int, T.Int)),
    calls    = {'self._workers[state]': _worker_call, 'ru.get_exception_trace': _trace, 'repr': _repr2},
    effects  = {'self.advance': _w_advance},
    requires = ['len(self._cancel_list) == 0', 'len(work_log) == 0', 'len(failed_bulks) == 0', 'n_raised == 0'],
    modifies = ['buckets', 'work_log', 'failed_bulks', 'n_raised', 'fidx'],
    raises   = {'AssertionError': 'True'},
    raises_weak = ['AssertionError'],
    frame_on_raise = False,
    no_raise_is_property = True,
    ensures  = [
      ('every-bulk-is-handed-to-its-worker-once', 'len(work_log) == len(keys_things)'),
      ('a-failing-worker-fails-its-own-bulk-only',
       'forall(lambda k: implies(0 <= k < len(work_log) and not work_log[k].ok and bool(work_log[k].state), '
       '0 <= at(fidx, k) < len(failed_bulks) and len(failed_bulks[at(fidx, k)]) == work_log[k].n and '
       'forall(lambda j: implies(0 <= j < len(failed_bulks[at(fidx, k)]), failed_bulks[at(fidx, k)][j].exception is not None))))'),
      ('no-bulk-is-failed-without-a-failing-worker', 'len(failed_bulks) <= n_raised'),
    ],
    loops = {'1': ['len(work_log) == i_things', 'len(failed_bulks) <= n_raised', 'n_raised <= i_things', 'len(self._cancel_list) == 0',
                   'forall(lambda k: implies(0 <= k < len(work_log) and not work_log[k].ok and bool(work_log[k].state), '
                   '0 <= at(fidx, k) < len(failed_bulks) and len(failed_bulks[at(fidx, k)]) == work_log[k].n and '
                   'forall(lambda j: implies(0 <= j < len(failed_bulks[at(fidx, k)]), failed_bulks[at(fidx, k)][j].exception is not None))))'],
             '1.1': ['len(things) == at_entry("1.1", len(things))', 'work_log == at_entry("1.1", work_log)', 'failed_bulks == at_entry("1.1", failed_bulks)',
                     'n_raised == at_entry("1.1", n_raised)', 'forall(lambda q: at(fidx, q) == at(at_entry("1.1", fidx), q), Int)',
                     'forall(lambda j: implies(0 <= j < i_thing, things[j].exception is not None))']},
    opts     = dict(merge='scalars'),
    serves   = ['C05'])


# ------------------------------------------------------------------------------
# Popen._launch_task: the process is spawned, and from then on somebody must
# collect it - the task is handed to the watcher exactly once on every return,
# before a late cancel request is acted on (cancel_task declines a process that
# has already exited and relies on the watcher to collect it)
PLTask = T.Rec('PLTask', uid=T.Str, proc=T.Opt(Proc), task_sandbox_path=T.Str, launch_path=T.Str)
REG.optional_keys['PLTask'] = {'proc'}
RCfgL = T.Rec('RCfgL', new_session_per_task=T.Opt(T.Bool))
SessL = T.Rec('SessL', rcfg=RCfgL)

def _l_spawn(ex, node, st):
    """sp.Popen(...): a process, or an exception and no process"""
    e = st.fork(); e.guards = []
    ex.exits.append(('Exception', e, ex.cur_line))
    return fresh(Proc, 'proc')
_l_spawn.mutates = ()

def _l_open(ex, node, st):
    e = st.fork(); e.guards = []
    ex.exits.append(('Exception', e, ex.cur_line))
    return Val(T.Any, z3.Const(C.fresh_name('fh'), C.AnySort))
_l_open.mutates = ()

def _l_watch(ex, node, st):
    t = ex.ev(node.args[0], st)
    log = ex.get_var(st, 'watch_log')
    ty = log.ty
    n = ty.len(log.term)
    st.env['watch_log'] = Val(ty, ty.mk(z3.Store(ty.arr(log.term), n, t.ty.get(t.term, 'uid')), n + 1))
    return C.NONE
_l_watch.mutates = ('watch_log',)

def _l_is_canceled(ex, node, st):
    return fresh(T.Opt(T.Bool), 'canceled')
_l_is_canceled.mutates = ()

def _l_cancel(ex, node, st):
    t = ex.ev(node.args[0], st)
    log = ex.get_var(st, 'watch_log')
    ty = log.ty
    i = z3.Int(C.fresh_name('i'))
    uid = t.ty.get(t.term, 'uid')
    ex.oblige(st, 'handed-to-the-watcher-before-a-late-cancel-is-acted-on@L%s' % ex.cur_line,
              z3.Exists([i], z3.And(0 <= i, i < ty.len(log.term), z3.Select(ty.arr(log.term), i) == uid)), 'post',
              note='cancel_task leaves a process that has already exited to the watcher: the task must be in the watch queue by then')
    n = ex.get_var(st, 'n_cancel')
    st.env['n_cancel'] = Val(T.Int, n.term + 1)
    return C.NONE
_l_cancel.mutates = ('n_cancel',)

REG.spec('agent/executing/popen.py:Popen._launch_task',
    params   = dict(task=PLTask),
    self     = dict(session=SessL),
    globals  = dict(_pids=T.List(T.Int)),
    ghost    = dict(watch_log=T.List(T.Str), n_cancel=T.Int),
    locals   = dict(_launch_out_h=T.Any),
    calls    = {'ru.ru_open': _l_open, 'sp.Popen': _l_spawn, 'self.is_canceled': _l_is_canceled,
                'self.cancel_task': _l_cancel},
    effects  = {'self.handle_timeout': ignore_call, 'self._watch_queue.put': _l_watch},
    requires = ['task.proc is None'],
    modifies = ['task', 'watch_log', 'n_cancel', '_pids'],
    raises   = {'Exception': 'True'},
    raises_weak = ['Exception'],
    exc_ensures = {'Exception': [('a-failed-spawn-leaves-no-process-and-nothing-to-watch',
                                  'task.proc is None and watch_log == old(watch_log) and n_cancel == old(n_cancel)')]},
    ensures  = [
      ('a-spawned-task-is-handed-to-the-watcher-exactly-once-on-every-return',
       'task.proc is not None and len(watch_log) == len(old(watch_log)) + 1 and watch_log[len(old(watch_log))] == old(task).uid'),
      ('earlier-watch-entries-kept', 'forall(lambda k: implies(0 <= k < len(old(watch_log)), watch_log[k] == old(watch_log)[k]))'),
      ('a-late-cancel-is-acted-on-at-most-once', 'n_cancel <= old(n_cancel) + 1'),
    ],
    serves   = ['C07', 'C08'])


# ------------------------------------------------------------------------------
# side condition of the interference argument (A7): the token discipline above is
# checked per operation; across threads it is sound only if "found in _tasks" and
# "removed from _tasks" are one atomic step.  Read from the AST on every run: in the
# functions that finish tasks, every removal from self._tasks sits inside a
# `with self._check_lock:` block, and inside the same block it is preceded by the
# membership test that lets a thread which does not find the uid leave.
import ast as _ast
from pyvc.frontend import FunctionSource as _FS


def _is_tasks(e):
    return isinstance(e, _ast.Attribute) and e.attr == '_tasks' and isinstance(e.value, _ast.Name) and e.value.id == 'self'


def _removals(node):
    out = []
    for n in _ast.walk(node):
        if isinstance(n, _ast.Delete):
            for t in n.targets:
                if isinstance(t, _ast.Subscript) and _is_tasks(t.value):
                    out.append(n)
        if isinstance(n, _ast.Call) and isinstance(n.func, _ast.Attribute) and n.func.attr in ('pop', 'popitem', 'clear') \
           and _is_tasks(n.func.value):
            out.append(n)
    return out


def _token_atomic():
    out = []
    for qn in ('Popen._check_running', 'Popen.cancel_task'):
        f = _FS('agent/executing/popen.py', qn)
        locked = [n for n in _ast.walk(f.node) if isinstance(n, _ast.With) and any(
                  isinstance(i.context_expr, _ast.Attribute) and i.context_expr.attr == '_check_lock' for i in n.items)]
        rem = _removals(f.node)
        if not rem:
            out.append(dict(name='%s:takes-the-task-out-of-the-registry' % qn, ok=False,
                            note='no removal from self._tasks found: the function finishes tasks without taking ownership'))
        for r in rem:
            blocks = [w for w in locked if any(x is r for x in _ast.walk(w))]
            inside = bool(blocks)
            tested = False
            for w in blocks:
                for x in _ast.walk(w):
                    if isinstance(x, _ast.If) and x.lineno <= r.lineno:
                        for c in _ast.walk(x.test):
                            if isinstance(c, _ast.Compare) and any(isinstance(o, (_ast.In, _ast.NotIn)) for o in c.ops) \
                               and any(_is_tasks(k) for k in c.comparators):
                                tested = True
            out.append(dict(name='%s:L%d:found-and-removed-in-one-locked-step' % (qn, r.lineno), ok=(inside and tested), line=r.lineno,
                            note='removal from self._tasks %s `with self._check_lock`, membership test in the same block: %s'
                                 % ('inside' if inside else 'OUTSIDE', tested),
                            witness=dict(function=qn, line=r.lineno, inside_lock=inside, tested_in_lock=tested, needs_schedule=True)))
    return out


REG.finite_check('C07.token-atomic', _token_atomic, ['C03', 'C05', 'C07', 'C08'],
                 'agent/executing/popen.py:Popen._check_running / cancel_task')
